-------------------------------- MODULE Rspt --------------------------------
(***************************************************************************)
(* Rayleigh-Schroedinger perturbation theory in the determinant space of a *)
(* model Hamiltonian (properties C02, C12; basis of Isr.tla).              *)
(*                                                                         *)
(* The Hamiltonian is canonical Hartree-Fock:                              *)
(*   H0 = sum_p e_p a+_p a_p                                               *)
(*   H1 = - sum_pq (sum_i <pi||qi>) a+_p a_q                               *)
(*        + sum_{p<q, r<s} <pq||rs> a+_p a+_q a_s a_r                      *)
(* with <pq||rs> the value the tensor model gives to the ERI symbol        *)
(* (antisymmetric, bra-ket symmetric: real orbitals) and e_p the orbital   *)
(* energies of the model.  Everything is explicit linear algebra over F_P  *)
(* on functions  determinant |-> coefficient.                              *)
(*                                                                         *)
(*   psi(0) = Phi,  E(n+1) = <Phi|H1|psi(n)>,                              *)
(*   psi(n+1) = R0 ( H1 psi(n) - sum_{k=1..n} E(k) psi(n+1-k) ),           *)
(*   R0 = sum_{D # Phi} |D><D| / (E0(Phi) - E0(D)).                        *)
(*                                                                         *)
(* Amplitudes (adcgen's convention, DESIGN App. A):                        *)
(*   t{n}^{ab..}_{ij..} = s * <Phi| (a+_a a+_b .. a_j a_i)^+ |psi(n)>,     *)
(*   s = -1 for doubles, +1 otherwise.                                     *)
(***************************************************************************)
EXTENDS ExprSem

Dets(M) == {D \in SUBSET (1..NOrb(M)) : Cardinality(D) = NOcc(M)}
Occs(M) == 1..NOcc(M)
Virts(M) == (NOcc(M) + 1)..NOrb(M)

Eri(p, q, r, s, M) == TensorDirect("A", M.rV, <<p, q>>, <<r, s>>, M)

(* one-particle part of H1: -sum_i <pi||qi> *)
H1One(M) == TLCEval([pq \in (1..NOrb(M)) \X (1..NOrb(M)) |->
               FNeg(FoldSet(LAMBDA i, a : FAdd(a, Eri(pq[1], i, pq[2], i, M)), 0, Occs(M)))])

PairsLt(M) == {pq \in (1..NOrb(M)) \X (1..NOrb(M)) : pq[1] < pq[2]}
EriTab(M) == TLCEval([x \in PairsLt(M) \X PairsLt(M) |-> Eri(x[1][1], x[1][2], x[2][1], x[2][2], M)])

ZeroVec(M) == TLCEval([D \in Dets(M) |-> 0])
Accum(v, st, c) == IF st.s = 0 \/ c = 0 THEN v
                   ELSE [v EXCEPT ![st.D] = FAdd(@, FMul(c, st.s))]

(* image of the determinant D under a one-particle operator sum_pq h[p,q] a+_p a_q *)
OneBodyCol(h, D, M) ==
  FoldSet(LAMBDA pq, v :
            Accum(v, Create(pq[1], Annihilate(pq[2], [s |-> 1, D |-> D])), h[pq]),
          ZeroVec(M), {pq \in DOMAIN h : pq[2] \in D /\ (pq[1] \notin D \/ pq[1] = pq[2])})

(* image under sum_{p<q,r<s} V[pq,rs] a+_p a+_q a_s a_r *)
TwoBodyCol(V, D, M) ==
  FoldSet(LAMBDA x, v :
            LET p == x[1][1]  q == x[1][2]  r == x[2][1]  s == x[2][2]
                st == Create(p, Create(q, Annihilate(s, Annihilate(r, [s |-> 1, D |-> D]))))
            IN Accum(v, st, V[x]),
          ZeroVec(M), {x \in DOMAIN V : x[2][1] \in D /\ x[2][2] \in D})

VecAdd(u, v) == TLCEval([D \in DOMAIN u |-> FAdd(u[D], v[D])])
VecSub(u, v) == TLCEval([D \in DOMAIN u |-> FSub(u[D], v[D])])
VecScale(c, v) == TLCEval([D \in DOMAIN v |-> FMul(c, v[D])])
Dot(u, v) == FoldSet(LAMBDA D, a : FAdd(a, FMul(u[D], v[D])), 0, DOMAIN u)

(* matrix as  D |-> column (image of D); MatVec = sum_D v[D] * Col[D] *)
MatVec(Cols, v) ==
  TLCEval([Dp \in DOMAIN v |-> FoldSet(LAMBDA D, a : FAdd(a, FMul(Cols[D][Dp], v[D])), 0, DOMAIN v)])

H1Cols(M) ==
  LET h == H1One(M)  V == EriTab(M)
  IN TLCEval([D \in Dets(M) |-> VecAdd(OneBodyCol(h, D, M), TwoBodyCol(V, D, M))])

E0Det(D, M) == FoldSet(LAMBDA p, a : FAdd(a, Norm(Energy(p, M))), 0, D)

Resolvent(v, M) ==      \* R0 v
  LET ref == RefDet(M) IN
  TLCEval([D \in DOMAIN v |-> IF D = ref THEN 0
                      ELSE FMul(v[D], Inv(FSub(E0Det(ref, M), E0Det(D, M))))])

(* psi and E up to order K:  [psi |-> <<psi0..psiK>> (index n+1), E |-> <<E0..E(K+1)>>] *)
RECURSIVE RsptRec(_, _, _, _, _)
RsptRec(H, M, K, psi, E) ==
  \* psi = <<psi(0..n)>>, E = <<E(0), E(1), ..., E(n+1)>>
  LET n == Len(psi) - 1 IN
  IF n >= K THEN [psi |-> psi, E |-> E]
  ELSE
    LET hp == MatVec(H, psi[n + 1])
        corr == FoldSet(LAMBDA k, v : VecAdd(v, VecScale(E[k + 1], psi[n + 1 - k + 1])),
                        ZeroVec(M), 1..n)
        nxt == Resolvent(VecSub(hp, corr), M)
        enext == MatVec(H, nxt)[RefDet(M)]        \* E(n+2) = <Phi|H1|psi(n+1)>
    IN RsptRec(H, M, K, Append(psi, nxt), Append(E, enext))

Rspt(M, K) ==
  LET H == H1Cols(M)
      psi0 == TLCEval([D \in Dets(M) |-> IF D = RefDet(M) THEN 1 ELSE 0])
      e0 == E0Det(RefDet(M), M)
      e1 == H[RefDet(M)][RefDet(M)]
  IN [H |-> H] @@ RsptRec(H, M, K, <<psi0>>, <<e0, e1>>)

(***************************************************************************)
(* RE partitioning ("retaining the excitation degree"): H0 is the part of  *)
(* the full Hamiltonian H = H0(mp) + H1(mp) that connects determinants of   *)
(* the same excitation level (f_oo, f_vv, <oo||oo>, <ov||ov>, <vv||vv>),    *)
(* H1 the rest.  H0 is not diagonal in the determinant basis: the          *)
(* perturbed wavefunctions are obtained by solving, level by level,        *)
(*   (E0 - H0) psi(n+1) = Q ( H1 psi(n) - sum_{k=1..n} E(k) psi(n+1-k) )    *)
(* with Gauss-Jordan elimination over F_P.                                 *)
(***************************************************************************)
RECURSIVE GaussJordan(_, _, _)
GaussJordan(A, n, c) ==       \* A: n rows of length n+1 (augmented matrix)
  IF c > n THEN [ok |-> TRUE, A |-> A]
  ELSE
    LET cand == {r \in c..n : A[r][c] # 0} IN
    IF cand = {} THEN [ok |-> FALSE, A |-> A]
    ELSE
      LET pv == CHOOSE r \in cand : \A r2 \in cand : r <= r2
          A1 == [A EXCEPT ![c] = A[pv], ![pv] = A[c]]
          iv == Inv(A1[c][c])
          rowc == TLCEval([j \in 1..(n + 1) |-> FMul(A1[c][j], iv)])
          A2 == TLCEval([r \in 1..n |->
                   IF r = c THEN rowc
                   ELSE LET f == A1[r][c] IN
                        IF f = 0 THEN A1[r]
                        ELSE TLCEval([j \in 1..(n + 1) |-> FSub(A1[r][j], FMul(f, rowc[j]))])])
      IN GaussJordan(A2, n, c + 1)

(* solution of  A x = b  (A: n x n as function of rows, b: function on 1..n) *)
LinSolve(A, b, n) ==
  LET aug == TLCEval([r \in 1..n |-> TLCEval([j \in 1..(n + 1) |-> IF j <= n THEN A[r][j] ELSE b[r]])])
      g == GaussJordan(aug, n, 1)
  IN [ok |-> g.ok, x |-> TLCEval([r \in 1..n |-> g.A[r][n + 1]])]

ExcLevel(D, M) == Cardinality(D \ RefDet(M))

HFullCols(M) ==
  LET H == H1Cols(M) IN
  TLCEval([D \in Dets(M) |-> TLCEval([Dp \in Dets(M) |->
     IF D = Dp THEN FAdd(H[D][Dp], E0Det(D, M)) ELSE H[D][Dp]])])

ReH0Cols(Hf, M) ==
  TLCEval([D \in Dets(M) |-> TLCEval([Dp \in Dets(M) |->
     IF ExcLevel(D, M) = ExcLevel(Dp, M) THEN Hf[D][Dp] ELSE 0])])
ReH1Cols(Hf, M) ==
  TLCEval([D \in Dets(M) |-> TLCEval([Dp \in Dets(M) |->
     IF ExcLevel(D, M) = ExcLevel(Dp, M) THEN 0 ELSE Hf[D][Dp]])])

(* x with (E0 - H0) x = rhs on the determinants of excitation level >= 1 *)
ReResolvent(H0, e0, rhs, M) ==
  LET levels == {ExcLevel(D, M) : D \in Dets(M)} \ {0}
      solve(L) ==
        LET ds == SetToSeq({D \in Dets(M) : ExcLevel(D, M) = L})
            n == Len(ds)
            A == TLCEval([r \in 1..n |-> TLCEval([c \in 1..n |->
                    FSub(IF r = c THEN e0 ELSE 0, H0[ds[c]][ds[r]])])])
            b == TLCEval([r \in 1..n |-> rhs[ds[r]]])
            sol == LinSolve(A, b, n)
        IN [ok |-> sol.ok, ds |-> ds, x |-> sol.x]
      sols == TLCEval([L \in levels |-> solve(L)])
      pos(D) == LET s == sols[ExcLevel(D, M)]
                IN s.x[CHOOSE r \in 1..Len(s.ds) : s.ds[r] = D]
  IN [ok |-> \A L \in levels : sols[L].ok,
      v |-> TLCEval([D \in Dets(M) |-> IF D = RefDet(M) THEN 0 ELSE pos(D)])]

RECURSIVE ReRec(_, _, _, _, _, _, _, _)
ReRec(H0, H1, e0, M, K, psi, E, ok) ==
  LET n == Len(psi) - 1 IN
  IF n >= K \/ ~ok THEN [psi |-> psi, E |-> E, ok |-> ok]
  ELSE
    LET hp == MatVec(H1, psi[n + 1])
        corr == FoldSet(LAMBDA k, v : VecAdd(v, VecScale(E[k + 1], psi[n + 1 - k + 1])),
                        ZeroVec(M), 1..n)
        r == ReResolvent(H0, e0, VecSub(hp, corr), M)
        enext == MatVec(H1, r.v)[RefDet(M)]
    IN ReRec(H0, H1, e0, M, K, Append(psi, r.v), Append(E, enext), r.ok)

ReRspt(M, K) ==
  LET Hf == HFullCols(M)
      H0 == ReH0Cols(Hf, M)
      H1 == ReH1Cols(Hf, M)
      ref == RefDet(M)
      psi0 == TLCEval([D \in Dets(M) |-> IF D = ref THEN 1 ELSE 0])
      e0 == H0[ref][ref]
  IN [H |-> H1, H0 |-> H0] @@ ReRec(H0, H1, e0, M, K, <<psi0>>, <<e0, H1[ref][ref]>>, TRUE)

(***************************************************************************)
(* Amplitude tables.  For the excitation class k all tuples                *)
(* (a_1..a_k virtual; i_1..i_k occupied).                                  *)
(***************************************************************************)
ExcState(U, L, M) ==     \* a+_a a+_b .. a_j a_i |Phi>  (annihilators reversed)
  LET ops == [k \in 1..Len(U) |-> <<"Fd", U[k]>>] \o
             [k \in 1..Len(L) |-> <<"F", L[Len(L) + 1 - k]>>]
  IN ApplyString(ops, Len(ops), [s |-> 1, D |-> RefDet(M)])

AmpValue(psi, U, L, M) ==
  IF Cardinality({U[k] : k \in 1..Len(U)}) < Len(U) \/ Cardinality({L[k] : k \in 1..Len(L)}) < Len(L)
  THEN 0       \* a repeated creator / annihilator: the string vanishes
  ELSE
  LET st == ExcState(U, L, M)
      s == IF Len(U) = 2 THEN P - 1 ELSE 1
  IN IF st.s = 0 THEN 0 ELSE FMul(s, FMul(st.s, psi[st.D]))

(* tuples without a repeated entry; a tuple with a repeated index is not     *)
(* tabulated: the tensor model gives 0 for it (antisymmetry of amplitudes), *)
(* which is also what AmpValue gives                                        *)
TupSet(S, k) == {t \in [1..k -> S] : Cardinality({t[j] : j \in 1..k}) = k}
AmpTable(psi, M, maxcls) ==
  LET keys == UNION {{<<2, k>> \o u \o l : u \in TupSet(Virts(M), k), l \in TupSet(Occs(M), k)} :
                     k \in 1..maxcls}
  IN TLCEval([x \in keys |-> AmpValue(psi, SubSeq(x, 3, 2 + x[2]), SubSeq(x, 3 + x[2], Len(x)), M)])

ConstTab(v) == [x \in {<<5, 0>>} |-> v]       \* the table of a plain symbol

(***************************************************************************)
(* One-particle operator sum_pq d^p_q a+_p a_q with the model's values of  *)
(* the tensor d, and the order-by-order expectation value                  *)
(* <Psi|d|Psi>/<Psi|Psi>.                                                  *)
(***************************************************************************)
OpOne(M, nid) == TLCEval([pq \in (1..NOrb(M)) \X (1..NOrb(M)) |->
                    TensorDirect("A", nid, <<pq[1]>>, <<pq[2]>>, M)])
OpCols(M, nid) == LET d == OpOne(M, nid) IN TLCEval([D \in Dets(M) |-> OneBodyCol(d, D, M)])

(* two-particle operator 1/4 sum d^{pq}_{rs} a+_p a+_q a_s a_r *)
OpCols2(M, nid) ==
  LET d == TLCEval([x \in PairsLt(M) \X PairsLt(M) |->
                     TensorDirect("A", nid, <<x[1][1], x[1][2]>>, <<x[2][1], x[2][2]>>, M)])
  IN TLCEval([D \in Dets(M) |-> TwoBodyCol(d, D, M)])

RECURSIVE SeriesDiv(_, _, _)
SeriesDiv(A, N, X) ==     \* X_n = A_n - sum_{k=1..n} N_k X_{n-k}   (N_0 = 1)
  LET n == Len(X) IN
  IF n >= Len(A) THEN X
  ELSE SeriesDiv(A, N,
         Append(X, FSub(A[n + 1],
                        FoldSet(LAMBDA k, a : FAdd(a, FMul(N[k + 1], X[n - k + 1])), 0, 1..n))))

Conv(K, f(_, _)) == TLCEval([n \in 1..(K + 1) |->
                       FoldSet(LAMBDA a, acc : FAdd(acc, f(a, n - 1 - a)), 0, 0..(n - 1))])

ExpectSeries(R, Dcols, K) ==
  LET dpsi == TLCEval([n \in 1..(K + 1) |-> MatVec(Dcols, R.psi[n])])
      A == Conv(K, LAMBDA a, b : Dot(R.psi[a + 1], dpsi[b + 1]))
      N == Conv(K, LAMBDA a, b : Dot(R.psi[a + 1], R.psi[b + 1]))
  IN SeriesDiv(A, N, <<>>)

(* one-particle density matrix rho_pq = <Psi|a+_p a_q|Psi>/<Psi|Psi>, order *)
(* by order: Dens[n+1] = table  <<1, 1, p, q>> |-> rho^(n)_pq               *)
SingleOpCols(p, q, M) ==
  TLCEval([D \in Dets(M) |-> Accum(ZeroVec(M), Create(p, Annihilate(q, [s |-> 1, D |-> D])), 1)])

DensTables(R, M, K) ==
  LET orbs == 1..NOrb(M)
      ser == TLCEval([pq \in orbs \X orbs |-> ExpectSeries(R, SingleOpCols(pq[1], pq[2], M), K)])
  IN TLCEval([n \in 1..(K + 1) |->
               TLCEval([x \in {<<1, 1, pq[1], pq[2]>> : pq \in orbs \X orbs} |-> ser[<<x[3], x[4]>>][n]])])

(***************************************************************************)
(* The model with the ground-state quantities tabulated.  M.gs =           *)
(*   [K, maxcls, t, tcc : Seq(nid) for t1..tK, E : Seq(nid) for E0..E(K+1),*)
(*    d : nid of the operator tensor, X : Seq(nid) for <d>(0)..<d>(K),     *)
(*    p : Seq(nid) of the density tensors p0..pK (or <<>>)]                *)
(* a nid of 0 means: not used by the events of this trace.                 *)
(***************************************************************************)
PutTab(tabs, nid, tab) == IF nid >= 1 /\ nid <= Len(tabs) THEN [tabs EXCEPT ![nid] = tab] ELSE tabs

RECURSIVE PutSeq(_, _, _, _)
PutSeq(tabs, nids, vals, k) ==
  IF k > Len(nids) \/ k > Len(vals) THEN tabs
  ELSE PutSeq(PutTab(tabs, nids[k], vals[k]), nids, vals, k + 1)

RsptModel(M) ==
  LET g == M.gs
      R == IF g.variant = "re" THEN ReRspt(M, g.K) ELSE Rspt(M, g.K) @@ [ok |-> TRUE]
      amp == TLCEval([n \in 1..g.K |-> AmpTable(R.psi[n + 1], M, g.maxcls)])
      etabs == [n \in 1..Len(R.E) |-> ConstTab(R.E[n])]
      xs == IF g.d = 0 THEN <<>>
            ELSE LET X == ExpectSeries(R, IF g.dn = 2 THEN OpCols2(M, g.d) ELSE OpCols(M, g.d), g.K)
                 IN [n \in 1..Len(X) |-> ConstTab(X[n])]
      t1 == PutSeq(M.tabs, g.t, amp, 1)
      t2 == PutSeq(t1, g.tcc, amp, 1)
      t3 == PutSeq(t2, g.E, etabs, 1)
      t4 == PutSeq(t3, g.X, xs, 1)
      t5 == IF g.p = <<>> THEN t4 ELSE PutSeq(t4, g.p, DensTables(R, M, g.K), 1)
  IN IF R.ok THEN [M EXCEPT !.tabs = t5] ELSE [M EXCEPT !.oracle = "singular"]

(***************************************************************************)
(* Sanity of the oracle itself (checked by MC_Rspt): intermediate          *)
(* normalisation, the closed forms of E1 and E2, hermiticity of H1.        *)
(***************************************************************************)
OracleSane(M, K) ==
  LET R == Rspt(M, K)
      ref == RefDet(M)
      e1 == FNeg(FMul(Inv(2), FoldSet(LAMBDA ij, a : FAdd(a, Eri(ij[1], ij[2], ij[1], ij[2], M)),
                                      0, Occs(M) \X Occs(M))))
      e2 == FoldSet(LAMBDA x, a :
               LET i == x[1][1]  j == x[1][2]  aa == x[2][1]  b == x[2][2]
                   v == Eri(i, j, aa, b, M)
                   dn == Norm(Energy(i, M) + Energy(j, M) - Energy(aa, M) - Energy(b, M))
               IN FAdd(a, FMul(FMul(v, v), Inv(dn))),
             0, {x \in PairsLt(M) \X PairsLt(M) :
                   x[1][2] \in Occs(M) /\ x[2][1] \in Virts(M)})
  IN /\ \A n \in 2..(K + 1) : R.psi[n][ref] = 0
     /\ R.E[2] = e1
     /\ (K >= 1 => R.E[3] = e2)
     /\ \A D1, D2 \in Dets(M) : R.H[D1][D2] = R.H[D2][D1]

(* RE oracle: the perturbation equations hold order by order (the solve is  *)
(* re-verified by substitution), intermediate normalisation, E(1) = 0, the *)
(* partial sums of the energy reproduce <Phi|H|psi> and H0 + H1 = H.        *)
ReOracleSane(M, K) ==
  LET R == ReRspt(M, K)
      ref == RefDet(M)
      Hf == HFullCols(M)
      eq(n) ==      \* (H0 - E0) psi(n) + H1 psi(n-1) - sum_{k=1..n} E(k) psi(n-k) = 0
        LET lhs == VecAdd(VecSub(MatVec(R.H0, R.psi[n + 1]), VecScale(R.E[1], R.psi[n + 1])),
                          MatVec(R.H, R.psi[n]))
            rhs == FoldSet(LAMBDA k, v : VecAdd(v, VecScale(R.E[k + 1], R.psi[n - k + 1])),
                           ZeroVec(M), 1..n)
        IN \A D \in Dets(M) : lhs[D] = rhs[D]
  IN ~R.ok \/
     (/\ \A n \in 1..K : eq(n)
      /\ \A n \in 2..(K + 1) : R.psi[n][ref] = 0
      /\ R.E[2] = 0
      /\ \A D1, D2 \in Dets(M) : FAdd(R.H0[D1][D2], R.H[D1][D2]) = Hf[D1][D2]
      /\ \A D1, D2 \in Dets(M) : R.H0[D1][D2] = R.H0[D2][D1])
=============================================================================
