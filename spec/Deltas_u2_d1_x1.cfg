SPECIFICATION Spec
CONSTANTS
  UniverseId = 2
  MaxDeltas = 1
  ExplicitTargets = 1
INVARIANT ValuePreserved
INVARIANT NoInfoLost
INVARIANT TargetsKept
INVARIANT NothingNew
CHECK_DEADLOCK FALSE
