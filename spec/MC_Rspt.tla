------------------------------ MODULE MC_Rspt ------------------------------
(* Design-level check of the RSPT oracle on a set of model Hamiltonians:   *)
(* intermediate normalisation, closed forms of E(1) and E(2), hermiticity. *)
EXTENDS Rspt
CONSTANTS SizeSet, Seeds, Order
Sizes == CASE SizeSet = 1 -> {<<2,2>>, <<3,2>>, <<2,3>>} [] SizeSet = 2 -> {<<2,2>>, <<3,2>>, <<2,3>>, <<3,3>>} [] OTHER -> {<<3,3>>, <<4,3>>, <<3,4>>}
VARIABLES cfg, st
BaseModel(no, nv, seed) ==
  [noa |-> no, nob |-> 0, nva |-> nv, nvb |-> 0, seed |-> seed,
   restricted |-> FALSE, spincons |-> FALSE, scn |-> <<>>, fock |-> "diag", eri |-> "gen",
   re |-> 2, rD |-> 0, rf |-> 3, rv |-> 0, rV |-> 1, rU |-> 0, umat |-> <<>>,
   bkn |-> <<1, 0, 1>>, tabs |-> << <<>>, <<>>, <<>> >>]
Init == cfg \in Sizes \X Seeds /\ st = "todo"
Next == st = "todo" /\ st' = "done" /\ UNCHANGED cfg
Spec == Init /\ [][Next]_<<cfg, st>>
Sane == st = "done" => OracleSane(BaseModel(cfg[1][1], cfg[1][2], cfg[2]), Order)
ReSane == st = "done" => ReOracleSane(BaseModel(cfg[1][1], cfg[1][2], cfg[2]), Order)
=============================================================================
