----------------------------- MODULE TraceJudge -----------------------------
(***************************************************************************)
(* Trace validation of recorded API calls against the transformation       *)
(* contracts of Contracts.tla.  The trace file (env TRACE_FILE) is a JSON  *)
(* array of events; Init picks an event and one of its tensor models, the  *)
(* single step evaluates every clause of the contract of the event's       *)
(* operation and records the list of failed clauses.  The verdict is       *)
(* printed ("VERDICT") and kept in the state; AllAccepted is checked as an *)
(* invariant (with -continue every rejected event is reported).            *)
(***************************************************************************)
EXTENDS Contracts, Json, IOUtils

Trace == JsonDeserialize(IOEnv.TRACE_FILE)

VARIABLES e, m, st, out
vars == <<e, m, st, out>>

Init == /\ e \in 1..Len(Trace)
        /\ m \in 1..Len(Trace[e].models)
        /\ st = "todo"
        /\ out = <<>>

Judge == /\ st = "todo"
         /\ st' = "done"
         /\ out' = Contract(Trace[e], WithTables(Trace[e].models[m], Trace[e].tabhint))
         /\ UNCHANGED <<e, m>>
         /\ PrintT(<<"VERDICT", Trace[e].tid, m, out'>>)

Next == Judge
Spec == Init /\ [][Next]_vars

AllAccepted == st = "done" => out = <<>>
=============================================================================
