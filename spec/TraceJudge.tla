----------------------------- MODULE TraceJudge -----------------------------
(***************************************************************************)
(* Trace validation of recorded API calls against the transformation       *)
(* contracts of Contracts.tla.  The trace file (env TRACE_FILE) is a JSON  *)
(* array of events; Init picks an event and one of its tensor models, the  *)
(* single step evaluates every clause of the contract of the event's       *)
(* operation and records the list of failed clauses.  The verdict is       *)
(* printed ("VERDICT") and kept in the state; AllAccepted is checked as an *)
(* invariant (with -continue every rejected event is reported).            *)
(***************************************************************************)
EXTENDS Contracts, Oracles, Codegen, Json, IOUtils

Trace == JsonDeserialize(IOEnv.TRACE_FILE)

(* An optional first record  [op |-> "globals", gm |-> <<model, ...>>]      *)
(* carries tensor models that are shared by many events (the oracle        *)
(* quantities - RSPT wavefunctions, amplitude tables ... - are then built  *)
(* once); an event refers to them by  [ref |-> k].                         *)
HasGlobals == Len(Trace) >= 1 /\ Trace[1].op = "globals"
Globals == IF HasGlobals THEN Trace[1].gm ELSE <<>>
Prepared == TLCEval([k \in 1..Len(Globals) |-> Prepare(Globals[k])])
First == IF HasGlobals THEN 2 ELSE 1
ModelOf(ev, m) ==
  LET x == ev.models[m] IN
  IF "ref" \in DOMAIN x THEN Prepared[x.ref] ELSE Prepare(x)

VARIABLES e, m, st, out
vars == <<e, m, st, out>>

Init == /\ e \in First..Len(Trace)
        /\ m \in 1..Len(Trace[e].models)
        /\ st = "todo"
        /\ out = <<>>

Judge == /\ st = "todo"
         /\ st' = "done"
         /\ out' = (IF ModelOf(Trace[e], m).oracle = "singular"
                    THEN <<>>    \* the RE zeroth-order block of this model Hamiltonian is singular: no oracle
                    ELSE IF Trace[e].op = "generate_code"
                    THEN CodegenContract(Trace[e], WithTables(ModelOf(Trace[e], m), Trace[e].tabhint))
                    ELSE Contract(Trace[e], WithTables(ModelOf(Trace[e], m), Trace[e].tabhint)))
         /\ UNCHANGED <<e, m>>
         /\ PrintT(<<"VERDICT", Trace[e].tid, m, out'>>)

Next == Judge
Spec == Init /\ [][Next]_vars

AllAccepted == st = "done" => out = <<>>
=============================================================================
