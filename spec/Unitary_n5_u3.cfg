SPECIFICATION Spec
CONSTANTS
  NIdx = 5
  MaxU = 3
  ExplicitTargets = TRUE
INVARIANT ValuePreserved
INVARIANT OldBehaviourDeviates
CHECK_DEADLOCK FALSE
