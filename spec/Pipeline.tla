------------------------------ MODULE Pipeline ------------------------------
(***************************************************************************)
(* System-level specification: an expression travelling through adcgen's   *)
(* public transformations.                                                 *)
(*                                                                         *)
(* State: cur (the AST of the current expression), asm (its assumptions:   *)
(* real, symbolic denominators present, spin labels present ...), l (the   *)
(* position in the recorded workflow).  One action per public              *)
(* transformation; an action is enabled only where the library documents   *)
(* the operation (Enabled below) and its effect is the contract of         *)
(* Contracts.tla / Codegen.tla with the CURRENT state as pre-state - so a  *)
(* recorded workflow is accepted only if every step starts from the state  *)
(* the previous step produced (state continuity) and satisfies its         *)
(* contract under the tensor-model class the contract is stated for.       *)
(*                                                                         *)
(* Trace validation (TRACE_FILE): a JSON array of workflows                *)
(*   [wid, idx, tgt, names, start (AST), asm0, steps : Seq(event)]         *)
(* every event carries op, post, models, tabhint, a (arguments /           *)
(* observations) exactly as for TraceJudge; ev.pre is ignored.             *)
(* A failed clause is recorded in `fails` (not dead-locked on), so the     *)
(* rest of the workflow is still validated.                                *)
(***************************************************************************)
EXTENDS Contracts, Oracles, Codegen, Json, IOUtils, PipelineRules

Flows == JsonDeserialize(IOEnv.TRACE_FILE)

(* tensor models shared by all steps of a workflow (oracle quantities are   *)
(* built once): Flows[w].gm; a step refers to them by [ref |-> k]          *)
PreparedW == TLCEval([ww \in 1..Len(Flows) |->
               TLCEval([k \in 1..Len(Flows[ww].gm) |-> Prepare(Flows[ww].gm[k])])])
ModelOfStep(ww, ev, m) ==
  LET x == ev.models[m] IN
  IF "ref" \in DOMAIN x THEN PreparedW[ww][x.ref] ELSE Prepare(x)

VARIABLES w, l, cur, asm, fails
vars == <<w, l, cur, asm, fails>>

Init == /\ w \in 1..Len(Flows)
        /\ l = 1
        /\ cur = Flows[w].start
        /\ asm = Flows[w].asm0
        /\ fails = <<>>

(* the contract of the step, stated on the current state *)
StepContract(ev, M) ==
  LET e2 == [ev EXCEPT !.pre = cur] IN
  IF ev.op = "generate_code" THEN CodegenContract(e2, M)
  ELSE IF ev.op \in ValuePreserving THEN ValEq(e2, M, cur, ev.post)
  ELSE Contract(e2, M)

Step ==
  /\ l <= Len(Flows[w].steps)
  /\ LET ev == Flows[w].steps[l]
         res == IF ~Enabled(ev.op, asm) THEN << <<"MACHINERY-not-enabled", ev.op>> >>
                ELSE FoldSet(LAMBDA m, acc :
                               acc \o (LET sc == StepContract(ev, WithTables(ModelOfStep(w, ev, m), ev.tabhint))
                                       IN [j \in 1..Len(sc) |-> <<l, m>> \o sc[j]]),
                             <<>>, 1..Len(ev.models))
     IN /\ fails' = fails \o res
        /\ cur' = (IF ev.op = "generate_code" THEN cur ELSE ev.post)
        /\ asm' = NextAsm(ev.op, asm)
        /\ PrintT(<<"STEP", Flows[w].wid, l, ev.op, res>>)
  /\ l' = l + 1
  /\ UNCHANGED w

Done == l > Len(Flows[w].steps) /\ UNCHANGED vars

Next == Step
Spec == Init /\ [][Next]_vars

(* a workflow is accepted iff every step was consumed without a failed clause *)
Accepted == l > Len(Flows[w].steps) => fails = <<>>
=============================================================================
