------------------------------ MODULE Orbitals ------------------------------
(***************************************************************************)
(* The finite spin-orbital space of a tensor model M.                      *)
(***************************************************************************)
EXTENDS Field, FiniteSets, TLC, FiniteSetsExt, SequencesExt

-----------------------------------------------------------------------------
(* Orbitals: 1..noa occupied alpha, then nob occupied beta, nva virtual    *)
(* alpha, nvb virtual beta.  Models without spin structure have nob=nvb=0. *)

NOcc(M)  == M.noa + M.nob
NOrb(M)  == M.noa + M.nob + M.nva + M.nvb
OccA(M)  == 1 .. M.noa
OccB(M)  == (M.noa + 1) .. NOcc(M)
VirtA(M) == (NOcc(M) + 1) .. (NOcc(M) + M.nva)
VirtB(M) == (NOcc(M) + M.nva + 1) .. NOrb(M)
IsOcc(o, M)  == o <= NOcc(M)
IsBeta(o, M) == o \in OccB(M) \/ o \in VirtB(M)
SpinOf(o, M) == IF IsBeta(o, M) THEN "b" ELSE "a"
(* spatial part of an orbital (used by restricted models) *)
Spatial(o, M) ==
  IF o \in OccA(M) THEN o
  ELSE IF o \in OccB(M) THEN o - M.noa
  ELSE IF o \in VirtA(M) THEN o - M.nob
  ELSE o - M.nob - M.nva          \* occ spatial 1..noa, virt spatial noa+1..

(* the spin orbital with the spatial part of o and the given spin *)
WithSpin(o, spin, M) ==
  LET k == Spatial(o, M) IN
  IF IsOcc(o, M) THEN (IF spin = "a" THEN k ELSE M.noa + k)
  ELSE (IF spin = "a" THEN NOcc(M) + (k - M.noa) ELSE NOcc(M) + M.nva + (k - M.noa))

IdxRange(ix, M) ==
  LET sp == IF ix.s = "o" THEN OccA(M) \cup OccB(M)
            ELSE IF ix.s = "v" THEN VirtA(M) \cup VirtB(M)
            ELSE 1 .. NOrb(M)
  IN IF ix.p = "" THEN sp
     ELSE IF ix.p = "a" THEN sp \cap (OccA(M) \cup VirtA(M))
     ELSE sp \cap (OccB(M) \cup VirtB(M))

-----------------------------------------------------------------------------
(* All assignments of the target indices (tgt: set of index ids) as        *)
(* sequences over 1..Len(idx) with 0 on every non-target position.         *)
RECURSIVE AssignR(_, _, _, _)
AssignR(tseq, idx, M, k) ==
  IF k > Len(tseq) THEN {[j \in 1..Len(idx) |-> 0]}
  ELSE {[s EXCEPT ![tseq[k]] = v] : s \in AssignR(tseq, idx, M, k + 1),
                                    v \in IdxRange(idx[tseq[k]], M)}
Assignments(tseq, idx, M) == AssignR(tseq, idx, M, 1)
=============================================================================
