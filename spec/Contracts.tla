------------------------------ MODULE Contracts ------------------------------
(***************************************************************************)
(* The contracts of adcgen's public transformations, as predicates over    *)
(* one recorded call (event).  An event is a record                        *)
(*   [tid, prop, op, idx, tgt, pre, post, models, a]                       *)
(* idx: index table, tgt: target index ids fixed by the PRE state (given   *)
(* explicitly or by the summation convention), pre / post: expression ASTs *)
(* (ExprSem), a: operation specific arguments / observations.              *)
(* Contract(ev, M) returns the sequence of violated clauses; <<>> accepts. *)
(***************************************************************************)
EXTENDS ExprSem

Clause(name, ok, detail) == IF ok THEN <<>> ELSE << <<name, detail>> >>

(* -- value preservation on every target assignment ---------------------- *)
ValDiff(ev, M, x, y) ==
  LET px == PrepExpr(x)
      py == PrepExpr(y)
  IN {sig \in Assignments(ev.tgt, ev.idx, M) :
        ValP(px, ev.idx, sig, M) # ValP(py, ev.idx, sig, M)}

ValEq(ev, M, x, y) ==
  LET tg == SeqRange(ev.tgt) IN
  IF ~(ExprOrdOk(x, tg) /\ ExprOrdOk(y, tg))
  THEN << <<"ord", "loop order does not match the non-target index set">> >>
  ELSE LET bad == ValDiff(ev, M, x, y) IN
       IF bad = {} THEN <<>>
       ELSE LET sig == CHOOSE s \in bad : TRUE IN
            << <<"val", [n |-> Cardinality(bad), at |-> sig,
                        lhs |-> Val(x, ev.idx, tg, sig, M),
                        rhs |-> Val(y, ev.idx, tg, sig, M)]>> >>

(* -- syntactic observers -------------------------------------------------- *)
BkOf(nid, M) == IF nid >= 1 /\ nid <= Len(M.bkn) THEN M.bkn[nid] ELSE 0

(* canonical representative of an object under its declared symmetry (the  *)
(* sign is dropped: used for "equal up to a scalar factor" comparisons)    *)
CanonObj(o, M) ==
  IF o.k \in {"A", "M", "S"} THEN
    LET Us == Sorted(o.u)
        Ls == Sorted(o.l)
        swap == BkOf(o.nid, M) # 0 /\ Len(Us) = Len(Ls) /\ SeqLess(Ls, Us, 1)
    IN [k |-> o.k, nid |-> o.nid, u |-> IF swap THEN Ls ELSE Us,
        l |-> IF swap THEN Us ELSE Ls, e |-> o.e]
  ELSE IF o.k = "D" THEN [k |-> "D", nid |-> 0, u |-> Sorted(o.u), l |-> <<>>, e |-> 1]
  ELSE [k |-> o.k, nid |-> o.nid, u |-> o.u, l |-> o.l, e |-> o.e]

RenameObj(o, ren) == [o EXCEPT !.u = [k \in 1..Len(o.u) |-> ren[o.u[k]]],
                               !.l = [k \in 1..Len(o.l) |-> ren[o.l[k]]]]

SeqBag(s) == [x \in SeqRange(s) |-> Cardinality({k \in 1..Len(s) : s[k] = x})]

(* the object bag of a term after renaming indices by ren, canonicalised   *)
TermBag(t, ren, M) ==
  SeqBag([k \in 1..Len(t.objs) |-> CanonObj(RenameObj(t.objs[k], ren), M)])

NoBracket(t) == \A k \in 1..Len(t.objs) : t.objs[k].k # "P"

(* cls[k] = [r |-> representative term, ren |-> index renaming]: the       *)
(* generator's witness that pre[k] is an alpha-variant of pre[r]; the      *)
(* witness is verified here, so a wrong witness can only reject the event  *)
(* as "witness", never produce a verdict about the code                    *)
WitnessOk(ev, M) ==
  \A k \in 1..Len(ev.pre) :
    LET c == ev.a.cls[k]
        id == [j \in 1..Len(ev.idx) |-> j]
    IN /\ c.r \in 1..Len(ev.pre)
       /\ NoBracket(ev.pre[k]) /\ NoBracket(ev.pre[c.r])
       /\ \A j \in SeqRange(ev.tgt) : c.ren[j] = j
       /\ \A j1, j2 \in TermIdx(ev.pre[k]) : c.ren[j1] = c.ren[j2] => j1 = j2
       /\ \A j \in TermIdx(ev.pre[k]) : ev.idx[c.ren[j]].s = ev.idx[j].s
                                          /\ ev.idx[c.ren[j]].p = ev.idx[j].p
       /\ TermBag(ev.pre[k], c.ren, M) = TermBag(ev.pre[c.r], id, M)

NClasses(ev) == Cardinality({ev.a.cls[k].r : k \in 1..Len(ev.pre)})

(* -- simplify (C07) ---------------------------------------------------------- *)
SimplifyContract(ev, M) ==
  ValEq(ev, M, ev.pre, ev.post)
  \o Clause("targets", ev.a.tgt_pre = ev.a.tgt_post, <<ev.a.tgt_pre, ev.a.tgt_post>>)
  \o Clause("assumptions", ev.a.asm_pre = ev.a.asm_post, <<ev.a.asm_pre, ev.a.asm_post>>)
  \o Clause("nterms", Len(ev.post) <= Len(ev.pre), <<Len(ev.pre), Len(ev.post)>>)
  \o (IF ev.a.has_cls
      THEN IF ~WitnessOk(ev, M) THEN << <<"witness", "alpha witness of the generator rejected">> >>
           ELSE Clause("merged", Len(ev.post) <= NClasses(ev), <<NClasses(ev), Len(ev.post)>>)
      ELSE <<>>)

(* -- evaluate_deltas (C09) ---------------------------------------------------- *)
(* information order: x carries at least the space and spin information of y *)
AtLeastInfoIdx(ev, x, y) ==
  LET a == ev.idx[x]  b == ev.idx[y] IN
  (b.s = "g" \/ a.s = b.s) /\ (b.p = "" \/ a.p = b.p)

DeltaPairs(t) == {<<t.objs[k].u[1], t.objs[k].u[2]>> : k \in {j \in 1..Len(t.objs) : t.objs[j].k = "D"}}

RECURSIVE ReachBy(_, _, _)
ReachBy(S, D, n) ==
  IF n = 0 THEN S
  ELSE ReachBy(S \cup {d[2] : d \in {f \in D : f[1] \in S}}
                 \cup {d[1] : d \in {f \in D : f[2] \in S}}, D, n - 1)

DeltaContract(ev, M) ==
  ValEq(ev, M, ev.pre, ev.post)
  \o (IF Len(ev.pre) = 1 /\ Len(ev.post) = 1 THEN
        LET t == ev.pre[1]  u == ev.post[1]
            before == TermIdx(t)  after == TermIdx(u)
            D == DeltaPairs(t)
            lost == {x \in before \ after :
                       ~\E y \in after : y \in ReachBy({x}, D, Cardinality(D)) /\ AtLeastInfoIdx(ev, y, x)}
        IN Clause("info", lost = {}, lost)
           \o Clause("target-lost", (SeqRange(ev.tgt) \cap before) \subseteq after,
                     (SeqRange(ev.tgt) \cap before) \ after)
           \o Clause("new-index", after \subseteq before, after \ before)
      ELSE <<>>)

(* -- simplify_unitary (C20) --------------------------------------------------- *)
(* occurrences of index x in term t, with exponent multiplicity *)
RECURSIVE OccObj(_, _)
OccObj(o, x) ==
  IF o.k = "P" THEN 0
  ELSE (IF o.e < 0 THEN 0 - o.e ELSE o.e) *
       (Cardinality({k \in 1..Len(o.u) : o.u[k] = x}) + Cardinality({k \in 1..Len(o.l) : o.l[k] = x}))
OccTerm(t, x) == FoldSet(LAMBDA k, a : a + OccObj(t.objs[k], x), 0, 1..Len(t.objs))

ObjIdxSeq(o) == IF o.k = "M" THEN o.l \o o.u ELSE o.u \o o.l      \* Obj.idx

(* transcription of the enabling condition of simplify_unitary: some pair  *)
(* of U factors (a factor with exponent >= 2 pairs with itself) shares the *)
(* first or the second index, not a target, occurring exactly twice        *)
ResolvableTerm(t, tg, nidU) ==
  LET us == {k \in 1..Len(t.objs) : t.objs[k].nid = nidU /\ t.objs[k].k # "D" /\ t.objs[k].k # "P"}
  IN \E a, b \in us :
       /\ (a < b \/ (a = b /\ t.objs[a].e >= 2))
       /\ \E z \in {1, 2} :
            LET x == ObjIdxSeq(t.objs[a])[z] IN
            x = ObjIdxSeq(t.objs[b])[z] /\ x \notin tg /\ OccTerm(t, x) = 2

StripOrd(t) == [t EXCEPT !.ord = <<>>]
TermBagOf(x) == SeqBag([k \in 1..Len(x) |-> StripOrd(x[k])])

UnitaryContract(ev, M) ==
  LET nidU == M.rU
      tg == SeqRange(ev.tgt)
      uobjs == UNION {{t.objs[k] : k \in {j \in 1..Len(t.objs) : t.objs[j].nid = nidU /\ t.objs[j].k \notin {"D", "P"}}} :
                      t \in SeqRange(ev.pre)}
      spaces == UNION {{ev.idx[i].s : i \in ObjIdx(o)} : o \in uobjs}
      R == IF spaces = {} THEN {} ELSE
           IdxRange([n |-> "x", s |-> (CHOOSE sp \in spaces : TRUE), p |-> ""], M)
  IN IF Cardinality(spaces) > 1 \/ ~UnitaryCertified(M, R)
     THEN << <<"MACHINERY-cert", "the proposed matrix is not orthogonal on the index space of U">> >>
     ELSE ValEq(ev, M, ev.pre, ev.post)
          \o Clause("untouched",
                    (\E k \in 1..Len(ev.pre) : ResolvableTerm(ev.pre[k], tg, nidU))
                    \/ ev.a.evaluate_deltas
                    \/ TermBagOf(ev.pre) = TermBagOf(ev.post),
                    "no resolvable pair but the expression changed")

(* -- wicks (C01) -------------------------------------------------------------- *)
(* pre contains one operator-string object (kind "OPS") whose value is the *)
(* determinant expectation value Fermi!VEV; post must be operator free.    *)
OperatorFree(x) == \A k \in 1..Len(x) : \A j \in 1..Len(x[k].objs) :
                      x[k].objs[j].k \notin {"OPS", "NO", "F", "Fd"}

BlockOf(o, ev) == LET ix == ObjIdxSeq(o) IN [k \in 1..Len(ix) |-> ev.idx[ix[k]].s]
Forbidden(o, ev) == \E r \in SeqRange(ev.a.rules) : r.nid = o.nid /\ o.k \notin {"D", "P"} /\ r.block = BlockOf(o, ev)
TermAllowed(t, ev) == \A k \in 1..Len(t.objs) : ~Forbidden(t.objs[k], ev)
FilterRules(x, ev) == SelectSeq(x, LAMBDA t : TermAllowed(t, ev))

WicksContract(ev, M) ==
  Clause("operator-free", OperatorFree(ev.post), "operators left in the result")
  \o (IF OperatorFree(ev.post) THEN ValEq(ev, M, ev.pre, ev.post) ELSE <<>>)

WicksRulesContract(ev, M) ==
  WicksContract(ev, M)
  \o Clause("excluded-block-left", \A k \in 1..Len(ev.postr) : TermAllowed(ev.postr[k], ev),
            "a term with an excluded tensor block was returned")
  \o (IF OperatorFree(ev.post) /\ OperatorFree(ev.postr)
      THEN LET d == ValEq(ev, M, FilterRules(ev.post, ev), ev.postr)
           IN IF d = <<>> THEN <<>> ELSE << <<"rules-value", d[1][2]>> >>
      ELSE <<>>)

(* -- the contract per operation ------------------------------------------ *)
Contract(ev, M) ==
  CASE ev.op = "valpres" -> ValEq(ev, M, ev.pre, ev.post)
    [] ev.op = "simplify" -> SimplifyContract(ev, M)
    [] ev.op = "evaluate_deltas" -> DeltaContract(ev, M)
    [] ev.op = "simplify_unitary" -> UnitaryContract(ev, M)
    [] ev.op = "wicks" -> WicksContract(ev, M)
    [] ev.op = "wicks_rules" -> WicksRulesContract(ev, M)
    [] OTHER -> << <<"unknown-op", ev.op>> >>
=============================================================================
