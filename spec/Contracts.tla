------------------------------ MODULE Contracts ------------------------------
(***************************************************************************)
(* The contracts of adcgen's public transformations, as predicates over    *)
(* one recorded call (event).  An event is a record                        *)
(*   [tid, prop, op, idx, tgt, pre, post, models, a]                       *)
(* idx: index table, tgt: target index ids fixed by the PRE state (given   *)
(* explicitly or by the summation convention), pre / post: expression ASTs *)
(* (ExprSem), a: operation specific arguments / observations.              *)
(* Contract(ev, M) returns the sequence of violated clauses; <<>> accepts. *)
(***************************************************************************)
EXTENDS ExprSem

Clause(name, ok, detail) == IF ok THEN <<>> ELSE << <<name, detail>> >>

(* -- value preservation on every target assignment ---------------------- *)
(* An event may carry  fix = << <<idx id, orbital>>, ... >> : it then covers  *)
(* only the target assignments with these values (the harness splits one    *)
(* big comparison into slices that together cover every assignment, so that *)
(* TLC's workers share it).                                                 *)
SliceOk(ev, sig) ==
  ~("fix" \in DOMAIN ev) \/ \A j \in 1..Len(ev.fix) : sig[ev.fix[j][1]] = ev.fix[j][2]

ValDiff(ev, M, x, y) ==
  LET px == PrepExpr(x)
      py == PrepExpr(y)
  IN {sig \in Assignments(ev.tgt, ev.idx, M) :
        SliceOk(ev, sig) /\ ValP(px, ev.idx, sig, M) # ValP(py, ev.idx, sig, M)}

ValEq(ev, M, x, y) ==
  LET tg == SeqRange(ev.tgt) IN
  IF ~(ExprOrdOk(x, tg) /\ ExprOrdOk(y, tg))
  THEN << <<"ord", "loop order does not match the non-target index set">> >>
  ELSE LET bad == ValDiff(ev, M, x, y) IN
       IF bad = {} THEN <<>>
       ELSE LET sig == CHOOSE s \in bad : TRUE IN
            << <<"val", [n |-> Cardinality(bad), at |-> sig,
                        lhs |-> Val(x, ev.idx, tg, sig, M),
                        rhs |-> Val(y, ev.idx, tg, sig, M)]>> >>

(* -- syntactic observers -------------------------------------------------- *)
BkOf(nid, M) == IF nid >= 1 /\ nid <= Len(M.bkn) THEN M.bkn[nid] ELSE 0

(* canonical representative of an object under its declared symmetry (the  *)
(* sign is dropped: used for "equal up to a scalar factor" comparisons)    *)
CanonObj(o, M) ==
  IF o.k \in {"A", "M", "S"} THEN
    LET Us == Sorted(o.u)
        Ls == Sorted(o.l)
        swap == BkOf(o.nid, M) # 0 /\ Len(Us) = Len(Ls) /\ SeqLess(Ls, Us, 1)
    IN [k |-> o.k, nid |-> o.nid, u |-> IF swap THEN Ls ELSE Us,
        l |-> IF swap THEN Us ELSE Ls, e |-> o.e]
  ELSE IF o.k = "D" THEN [k |-> "D", nid |-> 0, u |-> Sorted(o.u), l |-> <<>>, e |-> 1]
  ELSE [k |-> o.k, nid |-> o.nid, u |-> o.u, l |-> o.l, e |-> o.e]

RenameObj(o, ren) == [o EXCEPT !.u = [k \in 1..Len(o.u) |-> ren[o.u[k]]],
                               !.l = [k \in 1..Len(o.l) |-> ren[o.l[k]]]]

SeqBag(s) == [x \in SeqRange(s) |-> Cardinality({k \in 1..Len(s) : s[k] = x})]

(* the object bag of a term after renaming indices by ren, canonicalised   *)
TermBag(t, ren, M) ==
  SeqBag([k \in 1..Len(t.objs) |-> CanonObj(RenameObj(t.objs[k], ren), M)])

NoBracket(t) == \A k \in 1..Len(t.objs) : t.objs[k].k # "P"

(* cls[k] = [r |-> representative term, ren |-> index renaming]: the       *)
(* generator's witness that pre[k] is an alpha-variant of pre[r]; the      *)
(* witness is verified here, so a wrong witness can only reject the event  *)
(* as "witness", never produce a verdict about the code                    *)
WitnessOk(ev, M) ==
  \A k \in 1..Len(ev.pre) :
    LET c == ev.a.cls[k]
        id == [j \in 1..Len(ev.idx) |-> j]
    IN /\ c.r \in 1..Len(ev.pre)
       /\ NoBracket(ev.pre[k]) /\ NoBracket(ev.pre[c.r])
       /\ \A j \in SeqRange(ev.tgt) : c.ren[j] = j
       /\ \A j1, j2 \in TermIdx(ev.pre[k]) : c.ren[j1] = c.ren[j2] => j1 = j2
       /\ \A j \in TermIdx(ev.pre[k]) : ev.idx[c.ren[j]].s = ev.idx[j].s
                                          /\ ev.idx[c.ren[j]].p = ev.idx[j].p
       /\ TermBag(ev.pre[k], c.ren, M) = TermBag(ev.pre[c.r], id, M)

NClasses(ev) == Cardinality({ev.a.cls[k].r : k \in 1..Len(ev.pre)})

(* -- simplify (C07) ---------------------------------------------------------- *)
SimplifyContract(ev, M) ==
  ValEq(ev, M, ev.pre, ev.post)
  \o Clause("targets", ev.a.tgt_pre = ev.a.tgt_post, <<ev.a.tgt_pre, ev.a.tgt_post>>)
  \o Clause("assumptions", ev.a.asm_pre = ev.a.asm_post, <<ev.a.asm_pre, ev.a.asm_post>>)
  \o Clause("nterms", Len(ev.post) <= Len(ev.pre), <<Len(ev.pre), Len(ev.post)>>)
  \o (IF ev.a.has_cls
      THEN IF ~WitnessOk(ev, M) THEN << <<"witness", "alpha witness of the generator rejected">> >>
           ELSE Clause("merged", Len(ev.post) <= NClasses(ev), <<NClasses(ev), Len(ev.post)>>)
      ELSE <<>>)

(* -- evaluate_deltas (C09) ---------------------------------------------------- *)
(* information order: x carries at least the space and spin information of y *)
AtLeastInfoIdx(ev, x, y) ==
  LET a == ev.idx[x]  b == ev.idx[y] IN
  (b.s = "g" \/ a.s = b.s) /\ (b.p = "" \/ a.p = b.p)

DeltaPairs(t) == {<<t.objs[k].u[1], t.objs[k].u[2]>> : k \in {j \in 1..Len(t.objs) : t.objs[j].k = "D"}}

RECURSIVE ReachBy(_, _, _)
ReachBy(S, D, n) ==
  IF n = 0 THEN S
  ELSE ReachBy(S \cup {d[2] : d \in {f \in D : f[1] \in S}}
                 \cup {d[1] : d \in {f \in D : f[2] \in S}}, D, n - 1)

DeltaContract(ev, M) ==
  ValEq(ev, M, ev.pre, ev.post)
  \o (IF Len(ev.pre) = 1 /\ Len(ev.post) = 1 THEN
        LET t == ev.pre[1]  u == ev.post[1]
            before == TermIdx(t)  after == TermIdx(u)
            D == DeltaPairs(t)
            lost == {x \in before \ after :
                       ~\E y \in after : y \in ReachBy({x}, D, Cardinality(D)) /\ AtLeastInfoIdx(ev, y, x)}
        IN Clause("info", lost = {}, lost)
           \o Clause("target-lost", (SeqRange(ev.tgt) \cap before) \subseteq after,
                     (SeqRange(ev.tgt) \cap before) \ after)
           \o Clause("new-index", after \subseteq before, after \ before)
      ELSE <<>>)

(* -- simplify_unitary (C20) --------------------------------------------------- *)
(* occurrences of index x in term t, with exponent multiplicity *)
RECURSIVE OccObj(_, _)
OccObj(o, x) ==
  IF o.k = "P" THEN 0
  ELSE (IF o.e < 0 THEN 0 - o.e ELSE o.e) *
       (Cardinality({k \in 1..Len(o.u) : o.u[k] = x}) + Cardinality({k \in 1..Len(o.l) : o.l[k] = x}))
OccTerm(t, x) == FoldSet(LAMBDA k, a : a + OccObj(t.objs[k], x), 0, 1..Len(t.objs))

ObjIdxSeq(o) == IF o.k = "M" THEN o.l \o o.u ELSE o.u \o o.l      \* Obj.idx

(* transcription of the enabling condition of simplify_unitary: some pair  *)
(* of U factors (a factor with exponent >= 2 pairs with itself) shares the *)
(* first or the second index, not a target, occurring exactly twice        *)
ResolvableTerm(t, tg, nidU) ==
  LET us == {k \in 1..Len(t.objs) : t.objs[k].nid = nidU /\ t.objs[k].k # "D" /\ t.objs[k].k # "P"}
  IN \E a, b \in us :
       /\ (a < b \/ (a = b /\ t.objs[a].e >= 2))
       /\ \E z \in {1, 2} :
            LET x == ObjIdxSeq(t.objs[a])[z] IN
            x = ObjIdxSeq(t.objs[b])[z] /\ x \notin tg /\ OccTerm(t, x) = 2

SwapPair(sig, g) == [sig EXCEPT ![g[1]] = sig[g[2]], ![g[2]] = sig[g[1]]]
StripOrd(t) == [t EXCEPT !.ord = <<>>]
StripPref(t) == [t EXCEPT !.ord = <<>>, !.num = 1, !.den = 1, !.s2 = 0, !.s3 = 0]
RECURSIVE FlattenObjsR(_, _)
FlattenObjsR(x, k) == IF k > Len(x) THEN <<>> ELSE x[k].objs \o FlattenObjsR(x, k + 1)
FlattenObjs(x) == FlattenObjsR(x, 1)
TermBagOf(x) == SeqBag([k \in 1..Len(x) |-> StripOrd(x[k])])

UnitaryContract(ev, M) ==
  LET nidU == M.rU
      tg == SeqRange(ev.tgt)
      uobjs == UNION {{t.objs[k] : k \in {j \in 1..Len(t.objs) : t.objs[j].nid = nidU /\ t.objs[j].k \notin {"D", "P"}}} :
                      t \in SeqRange(ev.pre)}
      spaces == UNION {{ev.idx[i].s : i \in ObjIdx(o)} : o \in uobjs}
      R == IF spaces = {} THEN {} ELSE
           IdxRange([n |-> "x", s |-> (CHOOSE sp \in spaces : TRUE), p |-> ""], M)
  IN IF Cardinality(spaces) > 1 \/ ~UnitaryCertified(M, R)
     THEN << <<"MACHINERY-cert", "the proposed matrix is not orthogonal on the index space of U">> >>
     ELSE ValEq(ev, M, ev.pre, ev.post)
          \o Clause("untouched",
                    (\E k \in 1..Len(ev.pre) : ResolvableTerm(ev.pre[k], tg, nidU))
                    \/ ev.a.evaluate_deltas
                    \/ TermBagOf(ev.pre) = TermBagOf(ev.post),
                    "no resolvable pair but the expression changed")

(* -- wicks (C01) -------------------------------------------------------------- *)
(* pre contains one operator-string object (kind "OPS") whose value is the *)
(* determinant expectation value Fermi!VEV; post must be operator free.    *)
OperatorFree(x) == \A k \in 1..Len(x) : \A j \in 1..Len(x[k].objs) :
                      x[k].objs[j].k \notin {"OPS", "NO", "F", "Fd"}

BlockOf(o, ev) == LET ix == ObjIdxSeq(o) IN [k \in 1..Len(ix) |-> ev.idx[ix[k]].s]
Forbidden(o, ev) == \E r \in SeqRange(ev.a.rules) : r.nid = o.nid /\ o.k \notin {"D", "P"} /\ r.block = BlockOf(o, ev)
TermAllowed(t, ev) == \A k \in 1..Len(t.objs) : ~Forbidden(t.objs[k], ev)
FilterRules(x, ev) == SelectSeq(x, LAMBDA t : TermAllowed(t, ev))

WicksContract(ev, M) ==
  Clause("operator-free", OperatorFree(ev.post), "operators left in the result")
  \o (IF OperatorFree(ev.post) THEN ValEq(ev, M, ev.pre, ev.post) ELSE <<>>)

WicksRulesContract(ev, M) ==
  WicksContract(ev, M)
  \o Clause("excluded-block-left", \A k \in 1..Len(ev.postr) : TermAllowed(ev.postr[k], ev),
            "a term with an excluded tensor block was returned")
  \o (IF OperatorFree(ev.post) /\ OperatorFree(ev.postr)
      THEN LET d == ValEq(ev, M, FilterRules(ev.post, ev), ev.postr)
           IN IF d = <<>> THEN <<>> ELSE << <<"rules-value", d[1][2]>> >>
      ELSE <<>>)

(* -- tensor construction (C06) -------------------------------------------------- *)
(* ev.a.members: the constructions of one symmetry orbit. member = [inp :  *)
(* object with the index tuple as passed to the constructor, out : the     *)
(* constructed expression (<<>> = 0)].  ev.pre / ev.post = members[1].     *)
(*  val      : the constructed object has the value the tensor model gives *)
(*             to the INPUT tuple (sign and "never identifies unrelated    *)
(*             tuples": the model has exactly the declared symmetry)       *)
(*  orbit    : harness claim "inputs are related by the declared symmetry" *)
(*             re-verified (same index multisets up to bra-ket swap)       *)
(*  canonical: all members give the same canonical object                  *)
(*  zero     : the result is 0 exactly in the forced cases of the property *)
(*             (repeated index in an antisymmetric group; delta between    *)
(*             different spaces or spins)                                  *)
SameBagSeq(a, b) == Len(a) = Len(b) /\ SeqBag(a) = SeqBag(b)
Related(o1, o2, bk) ==
  \/ (SameBagSeq(o1.u, o2.u) /\ SameBagSeq(o1.l, o2.l))
  \/ (bk # 0 /\ SameBagSeq(o1.u, o2.l) /\ SameBagSeq(o1.l, o2.u))
OutObj(x) == IF x = <<>> THEN <<>> ELSE StripPref(x[1])
TensorContract(ev, M) ==
  LET mem == ev.a.members
      bk == BkOf(mem[1].inp.nid, M)
      inTerm(o) == << [num |-> 1, den |-> 1, s2 |-> 0, s3 |-> 0, objs |-> <<o>>, ord |-> <<>>] >>
      bad == {k \in 1..Len(mem) : ValEq(ev, M, inTerm(mem[k].inp), mem[k].out) # <<>>}
      forced(o) == \/ (o.k \in {"A", "M"} /\ (HasRepeat(o.u) \/ HasRepeat(o.l)))
                   \/ (o.k = "D" /\ LET a == ev.idx[o.u[1]]  b == ev.idx[o.u[2]] IN
                                      \/ (a.s # "g" /\ b.s # "g" /\ a.s # b.s)
                                      \/ (a.p # "" /\ b.p # "" /\ a.p # b.p))
  IN Clause("val", bad = {}, bad)
     \o Clause("MACHINERY-orbit", \A k \in 1..Len(mem) : Related(mem[1].inp, mem[k].inp, bk), "not one orbit")
     \o Clause("canonical", \A k \in 1..Len(mem) : OutObj(mem[k].out) = OutObj(mem[1].out),
               {k \in 1..Len(mem) : OutObj(mem[k].out) # OutObj(mem[1].out)})
     \o Clause("zero", \A k \in 1..Len(mem) : (mem[k].out = <<>>) = forced(mem[k].inp),
               {k \in 1..Len(mem) : (mem[k].out = <<>>) # forced(mem[k].inp)})

(* declaring assumptions: value unchanged in every model with the assumed   *)
(* symmetry, idempotent, untouched tensors identical                       *)
AssumeContract(ev, M) ==
  ValEq(ev, M, ev.pre, ev.post)
  \o Clause("idempotent", TermBagOf(ev.post) = TermBagOf(ev.post2), "second application changed the expression")
  \o Clause("untouched",
            LET keep(x) == SeqBag(SelectSeq(FlattenObjs(x), LAMBDA o : o.nid \notin SeqRange(ev.a.affected)))
            IN keep(ev.pre) = keep(ev.post), "a tensor that is not named by the assumption changed")

(* -- index renaming (C08) -------------------------------------------------------- *)
(* a substitution list is a sequence of pairs <<old, new>> of index ids; it *)
(* is applied one pair after another (each pair to the whole tuple)        *)
RECURSIVE SeqSubst(_, _, _)
SeqSubst(t, subs, k) ==
  IF k > Len(subs) THEN t
  ELSE SeqSubst([j \in 1..Len(t) |-> IF t[j] = subs[k][1] THEN subs[k][2] ELSE t[j]], subs, k + 1)

(* order_substitutions: ev.a = [n, map (Seq: position i |-> image id),      *)
(* subs (the returned list), observed (tuple after sympy subs of the list)] *)
OrderSubsContract(ev, M) ==
  LET id == [j \in 1..ev.a.n |-> j]
      simultaneous == [j \in 1..ev.a.n |-> ev.a.map[j]]
  IN Clause("sequential=simultaneous", SeqSubst(id, ev.a.subs, 1) = simultaneous,
            <<SeqSubst(id, ev.a.subs, 1), simultaneous>>)
     \o Clause("observed", ev.a.observed = simultaneous, <<ev.a.observed, simultaneous>>)

(* Expr.permute(perms...): ev.a = [n, perms : Seq(<<p, q>>), observed]      *)
RECURSIVE ApplyTranspositions(_, _, _)
ApplyTranspositions(t, perms, k) ==
  IF k > Len(perms) THEN t
  ELSE ApplyTranspositions([j \in 1..Len(t) |->
         IF t[j] = perms[k][1] THEN perms[k][2] ELSE IF t[j] = perms[k][2] THEN perms[k][1] ELSE t[j]],
         perms, k + 1)
PermuteContract(ev, M) ==
  LET id == [j \in 1..ev.a.n |-> j]
  IN Clause("permute", ev.a.observed = ApplyTranspositions(id, ev.a.perms, 1),
            <<ev.a.observed, ApplyTranspositions(id, ev.a.perms, 1)>>)

(* the documented name order of a space: base letters, then letter+1 ...   *)
BaseLetters(sp) == CASE sp = "o" -> <<"i", "j", "k", "l", "m", "n", "o">>
                     [] sp = "v" -> <<"a", "b", "c", "d", "e", "f", "g", "h">>
                     [] OTHER -> <<"p", "q", "r", "s", "t", "u", "v", "w">>
NameAt(sp, k) == LET b == BaseLetters(sp)  nb == Len(b)
                     suffix == (k - 1) \div nb
                 IN b[((k - 1) % nb) + 1] \o (IF suffix = 0 THEN "" ELSE ToString(suffix))
(* the n lowest names of the space that are not in used *)
LowestNames(sp, used, n) ==
  LET cand == {k \in 1..(n + Cardinality(used)) : NameAt(sp, k) \notin used}
      ks == SetToSortSeq(cand, LAMBDA x, y : x < y)
  IN {NameAt(sp, ks[j]) : j \in 1..n}

ContractedOf(x, tg) == (UNION {TermIdx(x[k]) : k \in 1..Len(x)}) \ tg

(* substitute_contracted / substitute_with_generic on ONE term              *)
RenameContract(ev, M) ==
  LET tg == SeqRange(ev.tgt)
      cpre == ContractedOf(ev.pre, tg)
      cpost == ContractedOf(ev.post, tg)
      kinds == {<<ev.idx[i].s, ev.idx[i].p>> : i \in cpost}
      tnames(kd) == {ev.idx[i].n : i \in {j \in tg : ev.idx[j].s = kd[1] /\ ev.idx[j].p = kd[2]}}
      cnames(kd) == {ev.idx[i].n : i \in {j \in cpost : ev.idx[j].s = kd[1] /\ ev.idx[j].p = kd[2]}}
      count(kd, c) == Cardinality({j \in c : ev.idx[j].s = kd[1] /\ ev.idx[j].p = kd[2]})
  IN ValEq(ev, M, ev.pre, ev.post)
     \o Clause("target-touched", \A k \in 1..Len(ev.post) : tg \cap TermIdx(ev.pre[1]) \subseteq TermIdx(ev.post[k]),
               "a target index disappeared")
     \o Clause("merged", Cardinality(cpre) = Cardinality(cpost) /\
                         \A kd \in kinds : count(kd, cpre) = count(kd, cpost),
               <<Cardinality(cpre), Cardinality(cpost)>>)
     \o (IF ev.a.mode = "lowest"
         THEN Clause("lowest-names",
                     \A kd \in kinds : cnames(kd) = LowestNames(kd[1], tnames(kd), count(kd, cpost)),
                     {<<kd, cnames(kd)>> : kd \in kinds})
         ELSE Clause("fresh-names",
                     \A i \in cpost : <<ev.idx[i].n, ev.idx[i].s, ev.idx[i].p>> \notin SeqRange(ev.a.handed),
                     {ev.idx[i].n : i \in {j \in cpost : <<ev.idx[j].n, ev.idx[j].s, ev.idx[j].p>> \in SeqRange(ev.a.handed)}}))

(* the index registry: ev.a.hist is a recorded history of requests          *)
(*   [op |-> "get", keys : Seq(<<name, space, spin>>), ids : Seq(object id)] *)
(*   [op |-> "generic", space, spin, n, keys, ids]                          *)
(* contract machine: reg maps a key to the object first returned for it;    *)
(* a key always gives the identical object, different keys different        *)
(* objects; generic requests return n distinct keys of the requested space  *)
(* and spin that were never returned before.                                *)
RECURSIVE RegistryRun(_, _, _, _)
RegistryRun(hist, k, reg, fails) ==
  \* reg: set of <<key, id>>
  IF k > Len(hist) THEN fails
  ELSE
    LET h == hist[k]
        known(key) == \E r \in reg : r[1] = key
        idOf(key) == (CHOOSE r \in reg : r[1] = key)[2]
        pairs == {<<h.keys[j], h.ids[j]>> : j \in 1..Len(h.keys)}
        identityOk == /\ \A pr \in pairs : known(pr[1]) => idOf(pr[1]) = pr[2]
                      /\ \A pr \in pairs : ~known(pr[1]) => \A r \in reg : r[2] # pr[2]
                      /\ \A p1, p2 \in pairs : (p1[1] = p2[1]) = (p1[2] = p2[2])
        genericOk == h.op # "generic" \/
                     (/\ Len(h.keys) = h.n
                      /\ Cardinality({h.keys[j] : j \in 1..Len(h.keys)}) = h.n
                      /\ \A j \in 1..Len(h.keys) : h.keys[j][2] = h.space /\ h.keys[j][3] = h.spin
                      /\ \A j \in 1..Len(h.keys) : ~known(h.keys[j]))
        f1 == IF identityOk THEN <<>> ELSE << <<"identity", k>> >>
        f2 == IF genericOk THEN <<>> ELSE << <<"generic-not-fresh", k>> >>
    IN RegistryRun(hist, k + 1, reg \cup pairs, fails \o f1 \o f2)

RegistryContract(ev, M) ==
  LET f == RegistryRun(ev.a.hist, 1, {}, <<>>)
  IN IF f = <<>> THEN <<>> ELSE << <<f[1][1], f>> >>

(* -- contraction schemes (C16) ---------------------------------------------------- *)
(* ev.a.steps: the returned list of contractions.  step =                  *)
(*   [ops : Seq(operand), contracted, target : Seq(idx id), comp, mem :    *)
(*    [total, o, v, g] reported scaling]                                   *)
(* operand = [t |-> "obj", o |-> tensor/delta object of the term (e = 1)]   *)
(*         | [t |-> "ctr", ref |-> position of an earlier step, ix |-> ids] *)
(* ev.pre is the term without numeric / symbolic prefactors, ev.a.target   *)
(* the requested target indices in order.                                  *)
RECURSIVE StepVal(_, _, _, _, _)
StepVal(steps, k, sig, ev, M) ==
  LET st == steps[k]
      opval(op, sg) == IF op.t = "obj" THEN ObjVal(op.o, sg, M)
                       ELSE StepVal(steps, op.ref, sg, ev, M)
      prod(sg) == FoldSet(LAMBDA j, a : IF a = 0 THEN 0 ELSE FMul(a, opval(st.ops[j], sg)),
                          1, 1..Len(st.ops))
      RECURSIVE Sum(_, _)
      Sum(j, sg) == IF j > Len(st.contracted) THEN prod(sg)
                    ELSE FoldSet(LAMBDA v, a : FAdd(a, Sum(j + 1, [sg EXCEPT ![st.contracted[j]] = v])),
                                 0, IdxRange(ev.idx[st.contracted[j]], M))
  IN Sum(1, sig)

OperandIdx(op) == IF op.t = "obj" THEN ObjIdx(op.o) ELSE SeqRange(op.ix)
StepIdx(st) == UNION {OperandIdx(st.ops[j]) : j \in 1..Len(st.ops)}
SpaceCount(ev, ids, sp) == Cardinality({i \in ids : ev.idx[i].s = sp})

SchemeContract(ev, M) ==
  LET steps == ev.a.steps
      n == Len(steps)
      t == ev.pre[1]
      tg == SeqRange(ev.a.target)
      \* objects of the term with exponent multiplicity
      expanded == [j \in 1..Len(t.objs) |-> [t.objs[j] EXCEPT !.e = 1]]
      termBag == [x \in SeqRange(expanded) |->
                    FoldSet(LAMBDA j, a : IF expanded[j] = x THEN a + t.objs[j].e ELSE a, 0, 1..Len(t.objs))]
      usedObjs == UNION {{<<k, j>> : j \in {jj \in 1..Len(steps[k].ops) : steps[k].ops[jj].t = "obj"}} : k \in 1..n}
      usedBag == [x \in {steps[kj[1]].ops[kj[2]].o : kj \in usedObjs} |->
                    Cardinality({kj \in usedObjs : steps[kj[1]].ops[kj[2]].o = x})]
      refs == UNION {{<<k, j>> : j \in {jj \in 1..Len(steps[k].ops) : steps[k].ops[jj].t = "ctr"}} : k \in 1..n}
      refCount(r) == Cardinality({kj \in refs : steps[kj[1]].ops[kj[2]].ref = r})
      laterIdx(k) == UNION {StepIdx(steps[kk]) : kk \in (k + 1)..n}
      bad == {sig \in Assignments(ev.a.target, ev.idx, M) :
                Val(ev.pre, ev.idx, tg, sig, M) # StepVal(steps, n, sig, ev, M)}
      hyper == Cardinality(TermIdx(t))
  IN Clause("objects-once", termBag = usedBag, <<termBag, usedBag>>)
     \o Clause("intermediate-once",
               /\ \A r \in 1..(n - 1) : refCount(r) = 1
               /\ refCount(n) = 0
               /\ \A kj \in refs : steps[kj[1]].ops[kj[2]].ref < kj[1]
                                    /\ steps[kj[1]].ops[kj[2]].ix = steps[steps[kj[1]].ops[kj[2]].ref].target,
               "an intermediate result is not used exactly once / out of order")
     \o Clause("summed-too-early",
               \A k \in 1..n : \A c \in SeqRange(steps[k].contracted) :
                  c \notin tg /\ c \notin laterIdx(k),
               {<<k, c>> \in (1..n) \X (1..Len(ev.idx)) :
                  c \in SeqRange(steps[k].contracted) /\ (c \in tg \/ c \in laterIdx(k))})
     \o Clause("step-indices",
               \A k \in 1..n : SeqRange(steps[k].contracted) \cup SeqRange(steps[k].target) = StepIdx(steps[k])
                                /\ SeqRange(steps[k].contracted) \cap SeqRange(steps[k].target) = {},
               "contracted + target indices of a step are not its operand indices")
     \o Clause("final-target", steps[n].target = ev.a.target, <<steps[n].target, ev.a.target>>)
     \o Clause("val", bad = {}, [n |-> Cardinality(bad)])
     \o Clause("max_itmd_dim",
               ev.a.max_itmd_dim = 0 \/ \A k \in 1..(n - 1) : Len(steps[k].target) <= ev.a.max_itmd_dim,
               {<<k, Len(steps[k].target)>> : k \in 1..(n - 1)})
     \o Clause("max_n_simultaneous",
               ev.a.max_n = 0 \/ \A k \in 1..n : Len(steps[k].ops) <= ev.a.max_n,
               {<<k, Len(steps[k].ops)>> : k \in 1..n})
     \o Clause("scaling",
               \A k \in 1..n :
                 LET c == SeqRange(steps[k].contracted)  tt == SeqRange(steps[k].target) IN
                 /\ steps[k].comp.total = Cardinality(c) + Cardinality(tt)
                 /\ \A sp \in {"o", "v", "g"} : steps[k].comp[sp] = SpaceCount(ev, c, sp) + SpaceCount(ev, tt, sp)
                 /\ steps[k].mem.total = Cardinality(tt)
                 /\ \A sp \in {"o", "v", "g"} : steps[k].mem[sp] = SpaceCount(ev, tt, sp),
               "reported scaling differs from the index counts")
     \o Clause("worse-than-hyper",
               \A k \in 1..n : steps[k].comp.total <= hyper, hyper)

(* -- remove_tensor / derivative (C14) ---------------------------------------------- *)
(* ev.a.blocks: one record per returned block                              *)
(*   [prod : T_B(idx) * R_B as an expression (no weight), rexpr : R_B,     *)
(*    tidx : the index ids of the removed tensor block in Obj.idx order,   *)
(*    nu : number of upper indices, amp : is an ADC amplitude, bk]         *)
(* documented normalisation of remove_tensor:                              *)
(*   E = sum_B w_B sum_idx T_B(idx) R_B(idx),  w_B = m_B / |Sym_B|,        *)
(*   |Sym_B| = prod over same-space groups of upper and of lower of n!,    *)
(*   m_B = 2 for a bra-ket (anti)symmetric tensor on an off-diagonal       *)
(*   block (partner folded), else 1; ADC amplitude: w_B = 1/sqrt(|Sym_B|). *)
GroupOrder(ev, ids) ==
  LET sp == {ev.idx[i].s : i \in SeqRange(ids)} IN
  FoldSet(LAMBDA x, a : a * Fact(Cardinality({k \in 1..Len(ids) : ev.idx[ids[k]].s = x})), 1, sp)
BlockUpper(b) == IF b.kind = "M" THEN SubSeq(b.tidx, Len(b.tidx) - b.nu + 1, Len(b.tidx)) ELSE SubSeq(b.tidx, 1, b.nu)
BlockLower(b) == IF b.kind = "M" THEN SubSeq(b.tidx, 1, Len(b.tidx) - b.nu) ELSE SubSeq(b.tidx, b.nu + 1, Len(b.tidx))
SymOrder(ev, b) == GroupOrder(ev, BlockUpper(b)) * GroupOrder(ev, BlockLower(b))
OffDiagonal(ev, b) ==
  LET su == SeqBag([k \in 1..Len(BlockUpper(b)) |-> ev.idx[BlockUpper(b)[k]].s])
      sl == SeqBag([k \in 1..Len(BlockLower(b)) |-> ev.idx[BlockLower(b)[k]].s])
  IN su # sl
BlockWeight(ev, b) ==
  IF b.kind \in {"N", "none"} THEN 1          \* no permutational symmetry
  ELSE IF b.amp THEN Inv(SqrtImage(SymOrder(ev, b)))
  ELSE FMul(IF b.bk # 0 /\ OffDiagonal(ev, b) THEN 2 ELSE 1, Inv(Norm(SymOrder(ev, b))))

(* adjacent same-space positions inside upper / lower: the generators of   *)
(* the block symmetry                                                      *)
BlockGenerators(ev, b) ==
  LET gen(ids) == {<<ids[k], ids[k + 1]>> : k \in {j \in 1..(Len(ids) - 1) : ev.idx[ids[j]].s = ev.idx[ids[j + 1]].s}}
  IN gen(BlockUpper(b)) \cup gen(BlockLower(b))

RemoveTensorContract(ev, M) ==
  LET tg == SeqRange(ev.tgt)
      bs == ev.a.blocks
      ordok == ExprOrdOk(ev.pre, tg) /\ \A k \in 1..Len(bs) : ExprOrdOk(bs[k].prod, tg)
      recon(sig) == FoldSet(LAMBDA k, a : FAdd(a, FMul(IF ev.a.what = "remove" THEN BlockWeight(ev, bs[k]) ELSE 1,
                                                       Val(bs[k].prod, ev.idx, tg, sig, M))), 0, 1..Len(bs))
      bad == {sig \in Assignments(ev.tgt, ev.idx, M) : Val(ev.pre, ev.idx, tg, sig, M) # recon(sig)}
      \* symmetry of the block expressions (targets: term targets + block indices)
      symbad == {k \in 1..Len(bs) :
                   LET btg == ev.tgt \o bs[k].tidx
                       bset == SeqRange(btg)
                       sgn == IF bs[k].kind = "S" THEN 1 ELSE P - 1
                   IN ExprOrdOk(bs[k].rexpr, bset) /\
                      \E g \in BlockGenerators(ev, bs[k]) :
                        \E sig \in Assignments(btg, ev.idx, M) :
                          Val(bs[k].rexpr, ev.idx, bset, SwapPair(sig, g), M) #
                          FMul(sgn, Val(bs[k].rexpr, ev.idx, bset, sig, M))}
  IN IF ~ordok THEN << <<"ord", "loop order">> >>
     ELSE (IF bad = {} THEN <<>>
           ELSE LET sig == CHOOSE s \in bad : TRUE IN
                << <<"val", [n |-> Cardinality(bad), at |-> sig,
                            lhs |-> Val(ev.pre, ev.idx, tg, sig, M), rhs |-> recon(sig)]>> >>)
          \o (IF ev.a.what = "remove" /\ ev.a.checksym
              THEN Clause("block-symmetry", symbad = {}, symbad) ELSE <<>>)

(* -- reported symmetries and lossless decompositions (C10) ------------------------ *)
(* Permutation operators act on the EXPRESSION one after another in the    *)
(* listed order: X -> P1 X -> P2 (P1 X), (P_pq X)(sig) = X(sig o t_pq).    *)
(* Hence (P2 P1 X)(sig) = X(sig o t2 o t1): on the assignment the          *)
(* transpositions are applied in REVERSE order.  SwapAll(sig, ps, 1).      *)
RECURSIVE SwapAll(_, _, _)
SwapAll(sig, ps, k) ==
  IF k > Len(ps) THEN sig
  ELSE LET j == Len(ps) + 1 - k IN
       SwapAll([sig EXCEPT ![ps[j][1]] = sig[ps[j][2]], ![ps[j][2]] = sig[ps[j][1]]], ps, k + 1)

(* Term.symmetry / Obj.symmetry: ev.pre is ONE term, every index of it is   *)
(* listed in ev.tgt (summand level); ev.a.syms = Seq([ps, f])               *)
SymmetryContract(ev, M) ==
  LET tg == SeqRange(ev.tgt)
      px == PrepExpr(ev.pre)
      bad == {k \in 1..Len(ev.a.syms) :
                \E sig \in Assignments(ev.tgt, ev.idx, M) :
                  ValP(px, ev.idx, SwapAll(sig, ev.a.syms[k].ps, 1), M) #
                  FMul(IF ev.a.syms[k].f = 1 THEN 1 ELSE P - 1, ValP(px, ev.idx, sig, M))}
  IN IF ~ExprOrdOk(ev.pre, tg) THEN << <<"ord", "loop order">> >>
     ELSE Clause("reported-symmetry", bad = {}, {ev.a.syms[k] : k \in bad})

(* decompositions: ev.a.parts = Seq([perms : Seq([ps, f]), x : expr,        *)
(* key : Seq(STRING)]); value of the original = sum over the parts of       *)
(* (1 + sum_k f_k P_k) x                                                   *)
BlockString(o, ev) == LET ix == ObjIdxSeq(o) IN [k \in 1..Len(ix) |-> ev.idx[ix[k]].s]
RECURSIVE TermBlocks(_, _, _, _)
TermBlocks(t, nid, ev, k) ==       \* blocks of the tensors named nid, with exponent multiplicity
  IF k > Len(t.objs) THEN <<>>
  ELSE (IF t.objs[k].nid = nid /\ t.objs[k].k \in {"A", "S", "M", "N"}
        THEN [j \in 1..t.objs[k].e |-> BlockString(t.objs[k], ev)] ELSE <<>>)
       \o TermBlocks(t, nid, ev, k + 1)
RECURSIVE TermDeltaBlocks(_, _, _)
TermDeltaBlocks(t, ev, k) ==
  IF k > Len(t.objs) THEN <<>>
  ELSE (IF t.objs[k].k = "D" THEN <<BlockString(t.objs[k], ev)>> ELSE <<>>) \o TermDeltaBlocks(t, ev, k + 1)

(* per tensor named nid: its target indices in the order of Obj.idx *)
RECURSIVE TermTargetIdx(_, _, _, _)
TermTargetIdx(t, nid, tg, k) ==
  IF k > Len(t.objs) THEN <<>>
  ELSE (IF t.objs[k].nid = nid /\ t.objs[k].k \in {"A", "S", "M", "N"}
        THEN << SelectSeq(ObjIdxSeq(t.objs[k]), LAMBDA i : i \in tg) >> ELSE <<>>)
       \o TermTargetIdx(t, nid, tg, k + 1)
RECURSIVE TermDeltaIdx(_, _)
TermDeltaIdx(t, k) ==      \* index pairs of the deltas (as sets), with exponent multiplicity
  IF k > Len(t.objs) THEN <<>>
  ELSE (IF t.objs[k].k = "D" THEN [j \in 1..t.objs[k].e |-> SeqRange(ObjIdxSeq(t.objs[k]))] ELSE <<>>)
       \o TermDeltaIdx(t, k + 1)

DecompContract(ev, M) ==
  LET tg == SeqRange(ev.tgt)
      parts == ev.a.parts
      pp == TLCEval([k \in 1..Len(parts) |-> PrepExpr(parts[k].x)])
      px == PrepExpr(ev.pre)
      recon(sig) ==
        FoldSet(LAMBDA k, a :
                  FAdd(a, FAdd(ValP(pp[k], ev.idx, sig, M),
                               FoldSet(LAMBDA j, b :
                                         FAdd(b, FMul(IF parts[k].perms[j].f = 1 THEN 1 ELSE P - 1,
                                                      ValP(pp[k], ev.idx, SwapAll(sig, parts[k].perms[j].ps, 1), M))),
                                       0, 1..Len(parts[k].perms)))),
                0, 1..Len(parts))
      bad == {sig \in Assignments(ev.tgt, ev.idx, M) : ValP(px, ev.idx, sig, M) # recon(sig)}
      ordok == ExprOrdOk(ev.pre, tg) /\ \A k \in 1..Len(parts) : ExprOrdOk(parts[k].x, tg)
      keyok(k) ==
        CASE ev.a.sorter = "by_tensor_block" ->
               \A j \in 1..Len(parts[k].x) :
                  LET bl == TermBlocks(parts[k].x[j], ev.a.nid, ev, 1) IN
                  IF bl = <<>> THEN parts[k].key = << <<"n", "o", "n", "e">> >>
                  ELSE SeqBag(bl) = SeqBag(parts[k].key)
          [] ev.a.sorter = "by_delta_types" ->
               \A j \in 1..Len(parts[k].x) :
                  LET bl == TermDeltaBlocks(parts[k].x[j], ev, 1) IN
                  IF bl = <<>> THEN parts[k].key = << <<"n", "o", "n", "e">> >>
                  ELSE SeqBag(bl) = SeqBag(parts[k].key)
          \* key entries as index ids (parts[k].kids): one set per delta
          [] ev.a.sorter = "by_delta_indices" ->
               \A j \in 1..Len(parts[k].x) :
                  LET ds == TermDeltaIdx(parts[k].x[j], 1) IN
                  IF ds = <<>> THEN parts[k].kids = << <<>> >>
                  ELSE SeqBag(ds) = SeqBag([q \in 1..Len(parts[k].kids) |-> SeqRange(parts[k].kids[q])])
          \* spaces of the target indices on every tensor of the name
          [] ev.a.sorter = "by_tensor_target_block" ->
               \A j \in 1..Len(parts[k].x) :
                  LET ti == TermTargetIdx(parts[k].x[j], ev.a.nid, tg, 1)
                      bl == [q \in 1..Len(ti) |->
                               IF ti[q] = <<>> THEN <<"n", "o", "n", "e">>
                               ELSE [z \in 1..Len(ti[q]) |-> ev.idx[ti[q][z]].s]]
                  IN IF ti = <<>> THEN Len(parts[k].key) = 1 /\ Len(parts[k].key[1]) > 3
                                       /\ SubSeq(parts[k].key[1], 1, 3) = <<"n", "o", "_">>
                     ELSE SeqBag(bl) = SeqBag(parts[k].key)
          \* names (as index ids) of the target indices on every tensor of the name
          [] ev.a.sorter = "by_tensor_target_indices" ->
               \A j \in 1..Len(parts[k].x) :
                  LET ti == TermTargetIdx(parts[k].x[j], ev.a.nid, tg, 1)
                  IN IF ti = <<>> THEN parts[k].kids = << <<-1>> >>
                     ELSE SeqBag(ti) = SeqBag(parts[k].kids)
          [] OTHER -> TRUE
  IN IF ~ordok THEN << <<"ord", "loop order">> >>
     ELSE (IF bad = {} THEN <<>>
           ELSE LET sig == CHOOSE s \in bad : TRUE IN
                << <<"val", [n |-> Cardinality(bad), at |-> sig,
                            lhs |-> ValP(px, ev.idx, sig, M), rhs |-> recon(sig)]>> >>)
          \o Clause("key", \A k \in 1..Len(parts) : keyok(k), {k \in 1..Len(parts) : ~keyok(k)})

(* -- spin integration (C15) ------------------------------------------------------ *)
(* pre: spin-orbital expression (indices without spin range over both      *)
(* spins), post: spin-integrated expression (every index carries a spin).  *)
(* ev.tgt: target indices of post, ev.a.pretgt: the same targets in pre,   *)
(* ev.a.spins: requested spins.  The model gives spin conserving tensors   *)
(* (M.scn) zero on non spin conserving blocks and builds <pq||rs> from     *)
(* Coulomb integrals.  Restricted: the result only has alpha indices; it   *)
(* is compared on a model whose values depend on the spatial orbital only. *)
SpinContract(ev, M) ==
  LET ptg == SeqRange(ev.tgt)
      qtg == SeqRange(ev.a.pretgt)
      ppre == PrepExpr(ev.pre)
      ppost == PrepExpr(ev.post)
      back(sig) == [j \in 1..Len(ev.idx) |->
                      IF \E k \in 1..Len(ev.a.pretgt) : ev.a.pretgt[k] = j
                      THEN LET k == CHOOSE kk \in 1..Len(ev.a.pretgt) : ev.a.pretgt[kk] = j
                           IN IF ev.a.restricted THEN WithSpin(sig[ev.tgt[k]], ev.a.spins[k], M)
                              ELSE sig[ev.tgt[k]]
                      ELSE 0]
      bad == {sig \in Assignments(ev.tgt, ev.idx, M) :
                ValP(ppost, ev.idx, sig, M) # ValP(ppre, ev.idx, back(sig), M)}
  IN IF ~(ExprOrdOk(ev.pre, qtg) /\ ExprOrdOk(ev.post, ptg)) THEN << <<"ord", "loop order">> >>
     ELSE IF bad = {} THEN <<>>
     ELSE LET sig == CHOOSE s \in bad : TRUE IN
          << <<"val", [n |-> Cardinality(bad), at |-> sig,
                      integrated |-> ValP(ppost, ev.idx, sig, M),
                      spinorbital |-> ValP(ppre, ev.idx, back(sig), M)]>> >>

(* allowed_spin_blocks: every target spin pattern that is not reported is  *)
(* identically zero                                                        *)
SpinBlocksContract(ev, M) ==
  LET tg == SeqRange(ev.tgt)
      px == PrepExpr(ev.pre)
      pattern(sig) == [k \in 1..Len(ev.tgt) |-> SpinOf(sig[ev.tgt[k]], M)]
      bad == {sig \in Assignments(ev.tgt, ev.idx, M) :
                pattern(sig) \notin SeqRange(ev.a.allowed) /\ ValP(px, ev.idx, sig, M) # 0}
  IN IF ~ExprOrdOk(ev.pre, tg) THEN << <<"ord", "loop order">> >>
     ELSE Clause("forbidden-block-nonzero", bad = {},
                 IF bad = {} THEN {} ELSE {pattern(CHOOSE s \in bad : TRUE)})

(* -- print / import round trip (C18) ---------------------------------------------- *)
(* pre: the expression, post: import_from_sympy_latex(str(pre)) with the   *)
(* same assumptions re-applied; ev.a.text_equal: the harness' literal      *)
(* comparison of the two printed texts                                     *)
RECURSIVE AllObjs(_)
AllObjs(objs) ==      \* flattened, operators inside groups included
  IF objs = <<>> THEN <<>>
  ELSE LET o == Head(objs) IN
       (IF o.k \in {"OPS", "NO"} THEN AllObjs(o.pt[1].objs) ELSE <<o>>) \o AllObjs(Tail(objs))
KindBag(x) == SeqBag(LET os == AllObjs(FlattenObjs(x)) IN [k \in 1..Len(os) |-> <<os[k].k, os[k].nid>>])

RoundTripContract(ev, M) ==
  ValEq(ev, M, ev.pre, ev.post)
  \o Clause("tensor-kinds", KindBag(ev.pre) = KindBag(ev.post),
            "the multiset of (tensor kind, name) changed")
  \o Clause("text", ev.a.text_equal, "printing the imported expression gives a different text")

(* -- histories (C19) ----------------------------------------------------------------- *)
(* pre: the result of the request in a fresh process, post: the result of  *)
(* the same request at some point of a history / under another hash seed / *)
(* tensor-name configuration (names mapped back)                           *)
HistoryContract(ev, M) ==
  ValEq(ev, M, ev.pre, ev.post)
  \o Clause("text", ev.a.text_equal, "text after substitute_contracted differs from the fresh-process text")

DisjointContract(ev, M) ==
  LET S == ev.a.sets IN
  Clause("shared-contracted-index",
         \A a, b \in 1..Len(S) : a < b => SeqRange(S[a]) \cap SeqRange(S[b]) = {},
         {<<a, b>> \in (1..Len(S)) \X (1..Len(S)) : a < b /\ SeqRange(S[a]) \cap SeqRange(S[b]) # {}})

(* -- composite integral-amplitude intermediates (C12) --------------------- *)
(* What each registered name stands for: the contraction table of adcc      *)
(* (Intermediates.t2eri: 'ijbc,kabc->ijka', 'ilab,lkjb->ijka',              *)
(* 'klab,ijkl->ijab', 'jkac,kbic->ijab', 'ijcd,abcd->ijab',                 *)
(* 'jkbc,jkia->iabc', 'ijbd,jcad->iabc'; t2sq: 'ikac,jkbc->iajb') and the   *)
(* pia / pib combinations of libadc, transcribed here independently of the *)
(* library's definitions.  x: the orbitals on the axes of the composite,   *)
(* T(i,j,a,b) = t^{ab}_{ij}(1) and V(p,q,r,s) = <pq||rs> are read from the *)
(* model (the amplitude from the RSPT oracle).                             *)
OccOrbs(M) == 1..NOcc(M)
VirtOrbs(M) == (NOcc(M) + 1)..NOrb(M)
Sum2(S1, S2, F(_, _)) ==
  FoldSet(LAMBDA p, acc : FoldSet(LAMBDA q, a2 : FAdd(a2, F(p, q)), acc, S2), 0, S1)

RECURSIVE CompositeVal(_, _, _, _)
CompositeVal(name, x, a, M) ==
  LET T(i, j, c, d) == TensorAt("M", a.t2, <<c, d>>, <<i, j>>, M)
      V(p, q, r, s) == TensorAt("A", a.V, <<p, q>>, <<r, s>>, M)
      O == OccOrbs(M)
      U == VirtOrbs(M)
      half == Pref(1, 2, 0, 0)
  IN CASE name = "t2eri_1" ->        \* ijka <- ijbc, kabc
            Sum2(U, U, LAMBDA b, c : FMul(T(x[1], x[2], b, c), V(x[3], x[4], b, c)))
       [] name = "t2eri_2" ->        \* ijka <- ilab, lkjb
            Sum2(O, U, LAMBDA l, b : FMul(T(x[1], l, x[4], b), V(l, x[3], x[2], b)))
       [] name = "t2eri_3" ->        \* ijab <- klab, ijkl
            Sum2(O, O, LAMBDA k, l : FMul(T(k, l, x[3], x[4]), V(x[1], x[2], k, l)))
       [] name = "t2eri_4" ->        \* ijab <- jkac, kbic
            Sum2(O, U, LAMBDA k, c : FMul(T(x[2], k, x[3], c), V(k, x[4], x[1], c)))
       [] name = "t2eri_5" ->        \* ijab <- ijcd, abcd
            Sum2(U, U, LAMBDA c, d : FMul(T(x[1], x[2], c, d), V(x[3], x[4], c, d)))
       [] name = "t2eri_6" ->        \* iabc <- jkbc, jkia
            Sum2(O, O, LAMBDA j, k : FMul(T(j, k, x[3], x[4]), V(j, k, x[1], x[2])))
       [] name = "t2eri_7" ->        \* iabc <- ijbd, jcad
            Sum2(O, U, LAMBDA j, d : FMul(T(x[1], j, x[3], d), V(j, x[4], x[2], d)))
       [] name = "t2eri_A" ->        \* pia_ijka = 1/2 pi1_ijka + pi2_ijka - pi2_jika
            FSub(FAdd(FMul(half, CompositeVal("t2eri_1", x, a, M)),
                      CompositeVal("t2eri_2", x, a, M)),
                 CompositeVal("t2eri_2", <<x[2], x[1], x[3], x[4]>>, a, M))
       [] name = "t2eri_B" ->        \* pib_iabc = -1/2 pi6_iabc + pi7_iabc - pi7_iacb
            FSub(FSub(CompositeVal("t2eri_7", x, a, M),
                      FMul(half, CompositeVal("t2eri_6", x, a, M))),
                 CompositeVal("t2eri_7", <<x[1], x[2], x[4], x[3]>>, a, M))
       [] name = "t2sq" ->           \* iajb <- ikac, jkbc
            Sum2(O, U, LAMBDA k, c : FMul(T(x[1], k, x[2], c), T(x[3], k, x[4], c)))
       [] OTHER -> Assert(FALSE, <<"unknown composite", name>>)

(* the spaces of the axes of a composite *)
CompositeSpaces(name) ==
  CASE name \in {"t2eri_1", "t2eri_2", "t2eri_A"} -> <<"o", "o", "o", "v">>
    [] name \in {"t2eri_3", "t2eri_4", "t2eri_5"} -> <<"o", "o", "v", "v">>
    [] name \in {"t2eri_6", "t2eri_7", "t2eri_B"} -> <<"o", "v", "v", "v">>
    [] OTHER -> <<"o", "v", "o", "v">>

(* A once expanded composite (pia, pib) refers to the tensors of lower     *)
(* composites: ev.a.sub = << [nid, name, kc, nu], ... >> lists them; they   *)
(* take the value of the contraction their name states (table keys as in   *)
(* TabKey: kind code kc, nu upper indices).                                 *)
CompositeTable(d, a, M) ==
  LET sp == CompositeSpaces(d.name)
      rng(k) == IF sp[k] = "o" THEN OccOrbs(M) ELSE VirtOrbs(M)
      tups == {x \in [1..4 -> 1..NOrb(M)] : \A k \in 1..4 : x[k] \in rng(k)}
  IN TLCEval([key \in {<<d.kc, d.nu>> \o x : x \in tups} |->
               CompositeVal(d.name, SubSeq(key, 3, 6), a, M)])

WithComposites(a, M) ==
  IF ~("sub" \in DOMAIN a) \/ Len(a.sub) = 0 THEN M
  ELSE
    LET top == Max({Len(M.tabs)} \cup {a.sub[j].nid : j \in 1..Len(a.sub)})
    IN [M EXCEPT !.tabs = TLCEval([n \in 1..top |->
          IF \E j \in 1..Len(a.sub) : a.sub[j].nid = n
          THEN CompositeTable(a.sub[CHOOSE j \in 1..Len(a.sub) : a.sub[j].nid = n], a, M)
          ELSE IF n <= Len(M.tabs) THEN M.tabs[n] ELSE <<>>])]

(* ev.a = [name, t2, V, axes, sub]: axes = the target index ids in the order *)
(* of the composite's axes; ev.post = what expand_itmd returned.            *)
CompositeContract(ev, M0) ==
  LET tg == SeqRange(ev.tgt)
      M == WithComposites(ev.a, M0) IN
  IF ~ExprOrdOk(ev.post, tg)
  THEN << <<"ord", "loop order does not match the non-target index set">> >>
  ELSE IF SeqRange(ev.a.axes) # tg \/ Len(ev.a.axes) # 4
  THEN << <<"axes", "the axes are not the four target indices">> >>
  ELSE
    LET px == PrepExpr(ev.post)
        want(sig) == CompositeVal(ev.a.name, [k \in 1..4 |-> sig[ev.a.axes[k]]], ev.a, M)
        bad == {sig \in Assignments(ev.tgt, ev.idx, M) :
                  SliceOk(ev, sig) /\ ValP(px, ev.idx, sig, M) # want(sig)}
    IN IF bad = {} THEN <<>>
       ELSE LET sig == CHOOSE s \in bad : TRUE IN
            << <<"val", [n |-> Cardinality(bad), at |-> sig,
                        lhs |-> want(sig),
                        rhs |-> ValP(px, ev.idx, sig, M)]>> >>

(* -- the contract per operation ------------------------------------------ *)
Contract(ev, M) ==
  CASE ev.op = "valpres" -> ValEq(ev, M, ev.pre, ev.post)
    [] ev.op = "simplify" -> SimplifyContract(ev, M)
    [] ev.op = "evaluate_deltas" -> DeltaContract(ev, M)
    [] ev.op = "simplify_unitary" -> UnitaryContract(ev, M)
    [] ev.op = "wicks" -> WicksContract(ev, M)
    [] ev.op = "tensor" -> TensorContract(ev, M)
    [] ev.op = "history_step" -> HistoryContract(ev, M)
    [] ev.op = "disjoint" -> DisjointContract(ev, M)
    [] ev.op = "roundtrip" -> RoundTripContract(ev, M)
    [] ev.op = "spin" -> SpinContract(ev, M)
    [] ev.op = "spin_blocks" -> SpinBlocksContract(ev, M)
    [] ev.op = "symmetry" -> SymmetryContract(ev, M)
    [] ev.op = "decomposition" -> DecompContract(ev, M)
    [] ev.op = "remove_tensor" -> RemoveTensorContract(ev, M)
    [] ev.op = "scheme" -> SchemeContract(ev, M)
    [] ev.op = "order_substitutions" -> OrderSubsContract(ev, M)
    [] ev.op = "permute" -> PermuteContract(ev, M)
    [] ev.op = "rename" -> RenameContract(ev, M)
    [] ev.op = "registry" -> RegistryContract(ev, M)
    [] ev.op = "assume" -> AssumeContract(ev, M)
    [] ev.op = "wicks_rules" -> WicksRulesContract(ev, M)
    [] ev.op = "composite" -> CompositeContract(ev, M)
    [] OTHER -> << <<"unknown-op", ev.op>> >>
=============================================================================
