SPECIFICATION Spec
CONSTANTS
  UniverseId = 1
  MaxDeltas = 3
  ExplicitTargets = 2
INVARIANT ValuePreserved
INVARIANT NoInfoLost
INVARIANT TargetsKept
INVARIANT NothingNew
CHECK_DEADLOCK FALSE
