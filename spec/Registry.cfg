SPECIFICATION Spec
CONSTANTS
  MaxDepth = 3
  MenuSize = 2
INVARIANT PoolUnused
INVARIANT PoolNoDup
INVARIANT PoolGenerations
PROPERTY Fresh
PROPERTY SymbolsGrow
PROPERTY CountersMonotone
PROPERTY Independent
CHECK_DEADLOCK FALSE
