SPECIFICATION Spec
CONSTANTS
  MaxLen = 6
  MaxNO = 0
  EmitFrom = 7
INVARIANT WickIsVEV
INVARIANT NOVanishes
CHECK_DEADLOCK FALSE
