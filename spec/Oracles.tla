------------------------------ MODULE Oracles ------------------------------
(***************************************************************************)
(* Dispatch from a tensor model to the oracle that tabulates the tensors   *)
(* with a physical meaning (M.oracle):                                     *)
(*   "none" : every tensor is generic (hash values with declared symmetry) *)
(*   "rspt" : ground-state amplitudes, energies, expectation values from   *)
(*            determinant-space RSPT (Rspt.tla)                            *)
(***************************************************************************)
EXTENDS Rspt

Prepare(M) ==
  CASE M.oracle = "rspt" -> RsptModel(M)
    [] OTHER -> M
=============================================================================
