------------------------------ MODULE Oracles ------------------------------
(***************************************************************************)
(* Dispatch from a tensor model to the oracle that tabulates the tensors   *)
(* with a physical meaning (M.oracle):                                     *)
(*   "none" : every tensor is generic (hash values with declared symmetry) *)
(*   "rspt" : ground-state amplitudes, energies, expectation values from   *)
(*            determinant-space RSPT (Rspt.tla)                            *)
(*   "defs" / "rspt+defs" : tensors defined by expressions (DefTable)       *)
(*   "isr"  : additionally the secular matrix / overlaps over explicitly   *)
(*            constructed intermediate states (Isr.tla)                    *)
(***************************************************************************)
EXTENDS Isr

(* Tensors DEFINED by an expression (property C11: "every intermediate      *)
(* tensor takes the value of its registered definition").  M.defs is a     *)
(* sequence of [nid, kd, nu, nl, idx, tgt, x]: x is the definition over its *)
(* own index table idx, tgt lists the definition's target indices in the   *)
(* order of the tensor's axes (Obj.idx).  Definitions may only refer to    *)
(* tensors tabulated before them.                                          *)
DefTable(d, M) ==
  LET tg == SeqRange(d.tgt)
      px == PrepExpr(d.x)
      keyOf(sig) ==
        LET vals == [k \in 1..Len(d.tgt) |-> sig[d.tgt[k]]]
        IN IF d.kd = "M"
           THEN TabKey("M", SubSeq(vals, d.nl + 1, d.nl + d.nu), SubSeq(vals, 1, d.nl))
           ELSE TabKey(d.kd, SubSeq(vals, 1, d.nu), SubSeq(vals, d.nu + 1, d.nu + d.nl))
      sigs == Assignments(d.tgt, d.idx, M)
      tab == TLCEval([sig \in sigs |-> ValP(px, d.idx, sig, M)])
  IN TLCEval([key \in {keyOf(sig) : sig \in sigs} |->
               tab[CHOOSE sig \in sigs : keyOf(sig) = key]])

RECURSIVE WithDefs(_, _)
WithDefs(M, k) ==
  IF k > Len(M.defs) THEN M
  ELSE WithDefs([M EXCEPT !.tabs = PutTab(M.tabs, M.defs[k].nid, DefTable(M.defs[k], M))], k + 1)

Prepare(M) ==
  CASE M.oracle = "rspt" -> RsptModel(M)
    [] M.oracle = "isr" -> IsrModel(M)
    [] M.oracle = "rspt+defs" -> WithDefs(RsptModel(M), 1)
    [] M.oracle = "defs" -> WithDefs(M, 1)
    [] OTHER -> M
=============================================================================
