------------------------------ MODULE Oracles ------------------------------
(***************************************************************************)
(* Dispatch from a tensor model to the oracle that tabulates the tensors   *)
(* with a physical meaning (M.oracle):                                     *)
(*   "none" : every tensor is generic (hash values with declared symmetry) *)
(*   "rspt" : ground-state amplitudes, energies, expectation values from   *)
(*            determinant-space RSPT (Rspt.tla)                            *)
(*   "isr"  : additionally the secular matrix / overlaps over explicitly   *)
(*            constructed intermediate states (Isr.tla)                    *)
(***************************************************************************)
EXTENDS Isr

Prepare(M) ==
  CASE M.oracle = "rspt" -> RsptModel(M)
    [] M.oracle = "isr" -> IsrModel(M)
    [] OTHER -> M
=============================================================================
