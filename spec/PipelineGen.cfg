SPECIFICATION Spec
CONSTANTS
  MaxLen = 4
PROPERTY DenominatorForms
PROPERTY RealIsStable
PROPERTY NoDisabledStep
CHECK_DEADLOCK FALSE
