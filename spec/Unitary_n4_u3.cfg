SPECIFICATION Spec
CONSTANTS
  NIdx = 4
  MaxU = 3
  ExplicitTargets = TRUE
INVARIANT ValuePreserved
INVARIANT OldBehaviourDeviates
CHECK_DEADLOCK FALSE
