SPECIFICATION Spec
CONSTANTS
  MaxLen = 6
PROPERTY DenominatorForms
PROPERTY RealIsStable
PROPERTY NoDisabledStep
CHECK_DEADLOCK FALSE
