---------------------------- MODULE PipelineRules ----------------------------
(***************************************************************************)
(* The assumption-level rules of the system-level specification, shared by *)
(* Pipeline.tla (trace validation of recorded workflows) and               *)
(* PipelineGen.tla (generation of workflows): which public transformation  *)
(* is documented for which state of the assumptions, and how it changes    *)
(* them.  asm = [real, explicit_denominators, spin, fock_diag].            *)
(***************************************************************************)

(* documented enabling conditions of the transformations *)
Enabled(op, a) ==
  CASE op \in {"factor_intermediates", "reduce_expr"} -> a.real
    [] op = "spin" -> ~a.spin
    [] op = "use_explicit_denominators" -> TRUE
    \* simplify refuses polynomial (explicit orbital-energy) denominators
    [] op = "simplify" -> ~a.explicit_denominators
    \* Fock diagonalisation is not implemented for polynomial denominators
    [] op = "diagonalize_fock" -> ~a.explicit_denominators
    \* the symbolic form is defined for expressions with explicit brackets
    [] op = "use_symbolic_denominators" -> a.explicit_denominators
    [] OTHER -> TRUE

(* the effect of a transformation on the assumptions *)
NextAsm(op, a) ==
  CASE op = "make_real" -> [a EXCEPT !.real = TRUE]
    [] op = "use_symbolic_denominators" -> [a EXCEPT !.explicit_denominators = FALSE]
    [] op \in {"use_explicit_denominators", "expand_intermediates", "reduce_expr"} ->
         [a EXCEPT !.explicit_denominators = TRUE]
    [] op = "spin" -> [a EXCEPT !.spin = TRUE]
    [] op = "diagonalize_fock" -> [a EXCEPT !.fock_diag = TRUE]
    [] OTHER -> a

(* transformations whose contract is "the value is unchanged for every     *)
(* assignment of the target indices" under the model class of the workflow *)
ValuePreserving ==
  {"make_real", "expand", "substitute_contracted", "substitute_with_generic",
   "use_symbolic_denominators", "use_explicit_denominators",
   "expand_intermediates", "factor_intermediates", "reduce_expr",
   "diagonalize_fock", "block_diagonalize_fock", "factor", "evaluate_deltas_expr"}
=============================================================================
