------------------------------- MODULE Field -------------------------------
(***************************************************************************)
(* The prime field F_P in which every expression value is computed.        *)
(* P = 10007: prime, P*P < 2^31 (TLC integers are 32 bit and TLC aborts on *)
(* overflow instead of wrapping), 2, 3 and 6 are quadratic residues so the *)
(* 1/sqrt(n_o! n_v!) prefactors of ADC vectors have images in the field.   *)
(* An identity between rational expressions (with sqrt(2), sqrt(3))        *)
(* whose denominators are invertible mod P also holds in F_P, so judging   *)
(* in F_P can never produce a false alarm.                                 *)
(***************************************************************************)
EXTENDS Integers, Sequences

P == 10007
Sqrt2 == 2641
Sqrt3 == 1477

ASSUME (Sqrt2 * Sqrt2) % P = 2
ASSUME (Sqrt3 * Sqrt3) % P = 3

Norm(x) == x % P               \* TLC: result in 0..P-1 also for negative x
FAdd(a, b) == (a + b) % P
FSub(a, b) == (a - b) % P
FMul(a, b) == (a * b) % P
FNeg(a) == (P - a) % P

RECURSIVE PowMod(_, _)
PowMod(b, e) ==
  IF e = 0 THEN 1
  ELSE LET h == PowMod(b, e \div 2)
           hh == (h * h) % P
       IN IF e % 2 = 0 THEN hh ELSE (hh * b) % P

Inv(a) == PowMod(a % P, P - 2)          \* Fermat; Inv(0) = 0 (callers test)
FDiv(a, b) == FMul(a, Inv(b))

(* b^e for a (possibly negative) integer exponent *)
PowZ(b, e) == IF e >= 0 THEN PowMod(b % P, e) ELSE PowMod(Inv(b), -e)

(* the image of  num/den * sqrt(2)^s2 * sqrt(3)^s3  (s2, s3 may be negative) *)
Pref(num, den, s2, s3) ==
  FMul(FMul(Norm(num), Inv(Norm(den))), FMul(PowZ(Sqrt2, s2), PowZ(Sqrt3, s3)))

Fact(n) == CASE n = 0 -> 1 [] n = 1 -> 1 [] n = 2 -> 2 [] n = 3 -> 6 [] n = 4 -> 24 [] OTHER -> 120
(* image of sqrt(n) for the integers that occur as n_o! n_v! *)
SqrtImage(n) == CASE n = 1 -> 1 [] n = 2 -> Sqrt2 [] n = 4 -> 2 [] n = 6 -> FMul(Sqrt2, Sqrt3)
                  [] n = 12 -> FMul(2, Sqrt3) [] n = 36 -> 6 [] n = 24 -> FMul(2, FMul(Sqrt2, Sqrt3))
                  [] n = 144 -> 12 [] n = 3 -> Sqrt3 [] n = 8 -> FMul(2, Sqrt2)

(***************************************************************************)
(* A small non-linear mixing function used to generate tensor values.      *)
(***************************************************************************)
Mix(h, x) == LET s == (h + (x % P) + 1) % P
                 q == (s * s) % P
             IN  (q * 31 + 7 * (x % P) + 11 + s) % P

RECURSIVE MixSeq(_, _, _)
MixSeq(h, s, k) == IF k > Len(s) THEN h ELSE MixSeq(Mix(h, s[k]), s, k + 1)

Hash(seed, s) == Mix(Mix(MixSeq(Mix(17, seed), s, 1), Len(s)), seed + 3)

RECURSIVE SumSeq(_, _)
SumSeq(s, k) == IF k > Len(s) THEN 0 ELSE (s[k] + SumSeq(s, k + 1)) % P
=============================================================================
