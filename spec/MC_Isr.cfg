SPECIFICATION Spec
CONSTANTS
  Cases = 1
  Order = 2
INVARIANT Sane
CHECK_DEADLOCK FALSE
