------------------------------- MODULE Fermi -------------------------------
(***************************************************************************)
(* Second quantisation on Slater determinants of the model space.          *)
(*                                                                         *)
(* A determinant is the set D of occupied spin orbitals; a state is        *)
(* [s, D] with s in {0 (the zero vector), 1, P-1 (= -1)}.  Orbitals are    *)
(* ordered by their number, the reference determinant is the set of all    *)
(* occupied orbitals.                                                      *)
(*   a_p  [s,D] = (-1)^{|{q in D : q < p}|} [s, D \ {p}]   if p in D else 0 *)
(*   a+_p [s,D] = (-1)^{|{q in D : q < p}|} [s, D u {p}]   if p notin D     *)
(* An operator string acts right to left.  VEV is the expectation value in *)
(* the reference determinant.  A normal-ordered group is, for a fixed      *)
(* orbital assignment, the product with all quasi-particle creators (a+ on *)
(* a virtual, a on an occupied orbital) moved to the left, times the sign  *)
(* of that permutation.                                                    *)
(*                                                                         *)
(* Operators are AST objects [k |-> "F" (annihilator) | "Fd" (creator),    *)
(* u |-> <<index id>>]; a group is [k |-> "NO", pt |-> <<[objs |-> ops]>>].*)
(***************************************************************************)
EXTENDS Orbitals

RefDet(M) == 1 .. NOcc(M)
Dead == [s |-> 0, D |-> {}]

PhaseBelow(p, D) == IF Cardinality({q \in D : q < p}) % 2 = 0 THEN 1 ELSE P - 1

Annihilate(p, st) ==
  IF st.s = 0 \/ p \notin st.D THEN Dead
  ELSE [s |-> FMul(st.s, PhaseBelow(p, st.D)), D |-> st.D \ {p}]
Create(p, st) ==
  IF st.s = 0 \/ p \in st.D THEN Dead
  ELSE [s |-> FMul(st.s, PhaseBelow(p, st.D)), D |-> st.D \cup {p}]

(* a flat operator: <<kind, orbital>> *)
ApplyFlat(op, st) == IF op[1] = "F" THEN Annihilate(op[2], st) ELSE Create(op[2], st)

RECURSIVE ApplyString(_, _, _)
ApplyString(ops, k, st) ==          \* applies ops[k], ops[k-1], ..., ops[1]
  IF k = 0 \/ st.s = 0 THEN st ELSE ApplyString(ops, k - 1, ApplyFlat(ops[k], st))

(* quasi-particle creator w.r.t. the Fermi vacuum *)
IsQCreator(op, M) == (op[1] = "Fd" /\ ~IsOcc(op[2], M)) \/ (op[1] = "F" /\ IsOcc(op[2], M))

(* normal ordering of a flat group: creators first (stable), sign of perm  *)
NormalOrder(g, M) ==
  LET qc == SelectSeq(g, LAMBDA op : IsQCreator(op, M))
      qa == SelectSeq(g, LAMBDA op : ~IsQCreator(op, M))
      inv == Cardinality({ab \in (1..Len(g)) \X (1..Len(g)) :
                            ab[1] < ab[2] /\ ~IsQCreator(g[ab[1]], M) /\ IsQCreator(g[ab[2]], M)})
  IN [ops |-> qc \o qa, sign |-> IF inv % 2 = 0 THEN 1 ELSE P - 1]

FlatOp(o, sig) == <<o.k, sig[o.u[1]]>>

(* flatten an operator string (sequence of F / Fd / NO objects) at sig:    *)
(* [ops |-> flat sequence, sign |-> accumulated normal-ordering sign]      *)
RECURSIVE Flatten(_, _, _, _)
Flatten(objs, k, sig, M) ==
  IF k > Len(objs) THEN [ops |-> <<>>, sign |-> 1]
  ELSE LET rest == Flatten(objs, k + 1, sig, M)
           o == objs[k]
       IN IF o.k = "NO"
          THEN LET g == [j \in 1..Len(o.pt[1].objs) |-> FlatOp(o.pt[1].objs[j], sig)]
                   n == NormalOrder(g, M)
               IN [ops |-> n.ops \o rest.ops, sign |-> FMul(n.sign, rest.sign)]
          ELSE [ops |-> <<FlatOp(o, sig)>> \o rest.ops, sign |-> rest.sign]

(* <Phi| string |Phi> *)
VEVFlat(ops, M) ==
  LET st == ApplyString(ops, Len(ops), [s |-> 1, D |-> RefDet(M)])
  IN IF st.s # 0 /\ st.D = RefDet(M) THEN st.s ELSE 0

VEV(objs, sig, M) ==
  LET f == Flatten(objs, 1, sig, M) IN FMul(f.sign, VEVFlat(f.ops, M))

(***************************************************************************)
(* Value-level transcription of adcgen's Wick recursion                    *)
(* (_contract_operator_string / _contraction /                             *)
(* _has_fully_contracted_contribution) for a bare string whose operators   *)
(* carry a space label: ops[k] = <<kind, orbital, space>>.                 *)
(***************************************************************************)
ContractionVal(p, q, M) ==
  IF p[1] = "F" /\ q[1] = "Fd" THEN
    IF p[3] = "o" \/ q[3] = "o" THEN 0
    ELSE IF p[3] = "v" \/ q[3] = "v" THEN (IF p[2] = q[2] THEN 1 ELSE 0)
    ELSE (IF p[2] = q[2] /\ ~IsOcc(q[2], M) THEN 1 ELSE 0)   \* delta_pq delta_{q a'}
  ELSE IF p[1] = "Fd" /\ q[1] = "F" THEN
    IF p[3] = "v" \/ q[3] = "v" THEN 0
    ELSE IF p[3] = "o" \/ q[3] = "o" THEN (IF p[2] = q[2] THEN 1 ELSE 0)
    ELSE (IF p[2] = q[2] /\ IsOcc(q[2], M) THEN 1 ELSE 0)
  ELSE 0

Prefilter(ops) ==
  LET cnt(kd, sp) == Cardinality({k \in 1..Len(ops) : ops[k][1] = kd /\ ops[k][3] = sp})
  IN /\ Len(ops) % 2 = 0
     /\ \A sp \in {"o", "v"} : cnt("Fd", sp) - (cnt("F", sp) + cnt("F", "g")) <= 0

DropAt(s, i) == [k \in 1..(Len(s) - 1) |-> IF k < i THEN s[k] ELSE s[k + 1]]

RECURSIVE WickRec(_, _)
WickRec(ops, M) ==
  IF ~Prefilter(ops) THEN 0
  ELSE FoldSet(LAMBDA i, acc :
         LET c == ContractionVal(ops[1], ops[i], M)
             sg == IF (i - 1) % 2 = 0 THEN P - 1 ELSE 1      \* "if not (i-1) % 2: c *= -1" (0-based i)
             rest == DropAt(DropAt(ops, i), 1)
         IN IF c = 0 THEN acc
            ELSE FAdd(acc, FMul(FMul(c, sg), IF Len(rest) = 0 THEN 1 ELSE WickRec(rest, M))),
         0, 2..Len(ops))
=============================================================================
