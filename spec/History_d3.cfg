SPECIFICATION Spec
CONSTANTS
  NReq = 12
  MaxDepth = 3
PROPERTY CountersMonotone
PROPERTY CacheStable
CHECK_DEADLOCK FALSE
