---------------------------- MODULE RegistryInd ----------------------------
(***************************************************************************)
(* Inductive invariant of the index registry (one (space, spin) class),    *)
(* checked with Apalache for arbitrary counters and arbitrary symbol /     *)
(* pool sets of up to 6 names - the unbounded counterpart of the bounded   *)
(* TLC runs on spec/Registry.tla.  The pool is abstracted to a set (the    *)
(* order in which generic names leave the pool does not matter for         *)
(* freshness).  Non-gating (DESIGN 7): run by tools/apalache_registry.sh.  *)
(*                                                                         *)
(*   apalache-mc check --init=IndInit --inv=IndInv --length=1 RegistryInd.tla *)
(*   apalache-mc check --init=Init    --inv=IndInv --length=0 RegistryInd.tla *)
(*   apalache-mc check --init=IndInit --inv=IndInvFresh --length=1 RegistryInd.tla *)
(***************************************************************************)
EXTENDS Integers, FiniteSets, Apalache

NL == 3             \* letters of the class
InitCounter == 3

VARIABLES
  \* @type: Set(<<Int, Int>>);
  symbols,
  \* @type: Set(<<Int, Int>>);
  pool,
  \* @type: Int;
  counter,
  \* @type: Set(<<Int, Int>>);
  handed,
  \* @type: Bool;
  freshOk        \* ghost: every generic name handed out so far was new

Init ==
  /\ symbols = {}
  /\ pool = {}
  /\ counter = InitCounter
  /\ handed = {}
  /\ freshOk = TRUE

\* @type: (<<Int, Int>>) => Bool;
GetExplicit(nm) ==
  /\ nm[1] \in 1..NL /\ nm[2] >= 0
  /\ symbols' = symbols \union {nm}
  /\ pool' = pool \ {nm}
  /\ UNCHANGED <<counter, handed, freshOk>>

Generate ==
  /\ pool' = pool \union {<<l, counter>> : l \in {k \in 1..NL : <<k, counter>> \notin symbols}}
  /\ counter' = counter + 1
  /\ UNCHANGED <<symbols, handed, freshOk>>

\* @type: (<<Int, Int>>) => Bool;
TakeGeneric(nm) ==
  /\ nm \in pool
  /\ symbols' = symbols \union {nm}
  /\ pool' = pool \ {nm}
  /\ handed' = handed \union {nm}
  /\ UNCHANGED counter
  /\ freshOk' = (freshOk /\ nm \notin symbols /\ nm \notin handed)

Next ==
  \/ \E l \in 1..NL : \E n \in 0..20 : GetExplicit(<<l, n>>)
  \/ \E l \in 1..NL : GetExplicit(<<l, counter + 1>>)      \* a name of a future generation
  \/ Generate
  \/ \E nm \in pool : TakeGeneric(nm)

IndInv ==
  /\ counter >= InitCounter
  /\ pool \intersect symbols = {}
  /\ handed \subseteq symbols
  /\ \A nm \in pool : nm[1] \in 1..NL /\ nm[2] >= InitCounter /\ nm[2] < counter
  /\ \A nm \in symbols : nm[1] \in 1..NL /\ nm[2] >= 0

\* THE property: a generic request hands out a name that did not exist
\* before (neither created explicitly nor handed out by a generic request)
Fresh == freshOk
IndInvFresh == IndInv /\ freshOk

IndInit ==
  /\ symbols = Gen(6)
  /\ pool = Gen(6)
  /\ handed = Gen(6)
  /\ counter = Gen(1)
  /\ freshOk = TRUE
  /\ IndInv
=============================================================================
