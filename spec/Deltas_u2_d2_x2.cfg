SPECIFICATION Spec
CONSTANTS
  UniverseId = 2
  MaxDeltas = 2
  ExplicitTargets = 2
INVARIANT ValuePreserved
INVARIANT NoInfoLost
INVARIANT TargetsKept
INVARIANT NothingNew
CHECK_DEADLOCK FALSE
