------------------------------- MODULE Deltas -------------------------------
(***************************************************************************)
(* Kronecker-delta evaluation (property C09).                              *)
(*                                                                         *)
(* Design-level machine.  A term is abstracted to                          *)
(*     ds  : the set of deltas, each a pair of positions of the universe   *)
(*     co  : the index tuple of ONE non-symmetric coefficient tensor       *)
(*     tg  : the target indices (explicit, or by the summation convention) *)
(* Build phase: AddDelta*, ChooseCoef, ChooseTargets enumerate every input *)
(* (ExplicitTargets: 0 summation convention only, 1 additionally one       *)
(* contracted index declared a target, 2 every explicit target set)        *)
(* that satisfies the precondition of the property (each contracted index  *)
(* occurs on the coefficient).  Each complete input is printed once        *)
(* ("CASE ...") - these are the inputs replayed into the real              *)
(* adcgen.evaluate_deltas.  Eval phase: a transcription of the algorithm   *)
(* (pick a delta, decide preferred / killable, substitute, restart); the   *)
(* order in which deltas are picked is nondeterministic because it follows *)
(* sympy's argument order.  Invariants (= the contract of C09) are checked *)
(* at termination:                                                         *)
(*   ValuePreserved : Val(result) = Val(input) for every target assignment *)
(*   NoInfoLost     : a removed index is delta-connected to a kept index   *)
(*                    carrying at least its space and spin information     *)
(*   TargetsKept    : every target index still occurs                      *)
(***************************************************************************)
EXTENDS ExprSem

CONSTANTS UniverseId, MaxDeltas, ExplicitTargets

(* index universes: [n |-> name, s |-> space, p |-> spin] *)
Universe ==
  CASE UniverseId = 1 ->
         << [n |-> "i", s |-> "o", p |-> ""], [n |-> "j", s |-> "o", p |-> ""],
            [n |-> "a", s |-> "v", p |-> ""], [n |-> "p", s |-> "g", p |-> ""],
            [n |-> "q", s |-> "g", p |-> ""] >>
    [] UniverseId = 2 ->
         << [n |-> "i", s |-> "o", p |-> ""], [n |-> "k", s |-> "o", p |-> "a"],
            [n |-> "p", s |-> "g", p |-> ""], [n |-> "r", s |-> "g", p |-> "a"],
            [n |-> "s", s |-> "g", p |-> "b"], [n |-> "l", s |-> "o", p |-> "b"] >>
    [] UniverseId = 3 ->
         << [n |-> "i", s |-> "o", p |-> ""], [n |-> "j", s |-> "o", p |-> ""],
            [n |-> "k", s |-> "o", p |-> "a"], [n |-> "a", s |-> "v", p |-> ""],
            [n |-> "p", s |-> "g", p |-> ""], [n |-> "q", s |-> "g", p |-> ""],
            [n |-> "r", s |-> "g", p |-> "a"] >>
    [] OTHER -> <<>>

N == Len(Universe)
Pos == 1..N

(* the tensor model on which values are compared: 2 occupied + 2 virtual   *)
(* spatial orbitals with both spins                                        *)
Model(seed) ==
  [noa |-> 2, nob |-> 2, nva |-> 2, nvb |-> 2, seed |-> seed,
   restricted |-> FALSE, spincons |-> FALSE, scn |-> <<>>, fock |-> "gen", eri |-> "gen",
   re |-> 0, rD |-> 0, rf |-> 0, rv |-> 0, rV |-> 0, rU |-> 0, umat |-> <<>>,
   bkn |-> <<0>>,
   tabs |-> << <<>> >>]

-----------------------------------------------------------------------------
(* A delta between x and y is identically zero at construction when the    *)
(* spaces or the spins exclude each other.                                 *)
DeltaZero(x, y) ==
  LET a == Universe[x]  b == Universe[y] IN
  \/ (a.s # "g" /\ b.s # "g" /\ a.s # b.s)
  \/ (a.p # "" /\ b.p # "" /\ a.p # b.p)

(* canonical argument order of a delta: (space letter, spin, name)         *)
SpaceRank(s) == CASE s = "g" -> 1 [] s = "o" -> 2 [] OTHER -> 3
SpinRank(p) == CASE p = "" -> 1 [] p = "a" -> 2 [] OTHER -> 3
CanonLess(x, y) ==
  LET a == Universe[x]  b == Universe[y] IN
  \/ SpaceRank(a.s) < SpaceRank(b.s)
  \/ (SpaceRank(a.s) = SpaceRank(b.s) /\ SpinRank(a.p) < SpinRank(b.p))
  \/ (SpaceRank(a.s) = SpaceRank(b.s) /\ SpinRank(a.p) = SpinRank(b.p) /\ x < y)

(* transcription of KroneckerDelta.preferred_and_killable:                 *)
(* <<preferred, killable>> or <<>> (no index may be removed)               *)
PrefKill(d) ==
  LET i == IF CanonLess(d[1], d[2]) THEN d[1] ELSE d[2]
      j == IF i = d[1] THEN d[2] ELSE d[1]
      s1 == Universe[i].s  p1 == Universe[i].p
      s2 == Universe[j].s  p2 == Universe[j].p
  IN IF p1 = p2 THEN (IF s1 = s2 \/ s2 = "g" THEN <<i, j>> ELSE <<j, i>>)
     ELSE IF p2 # "" THEN (IF s1 = s2 \/ s1 = "g" THEN <<j, i>> ELSE <<>>)
     ELSE (IF s1 = s2 \/ s2 = "g" THEN <<i, j>> ELSE <<>>)

EqualInfo(d) == Universe[d[1]].s = Universe[d[2]].s /\ Universe[d[1]].p = Universe[d[2]].p

(* information order of the property *)
AtLeastInfo(x, y) ==     \* x carries at least the information of y
  LET a == Universe[x]  b == Universe[y] IN
  (b.s = "g" \/ a.s = b.s) /\ (b.p = "" \/ a.p = b.p)

-----------------------------------------------------------------------------
VARIABLES phase, ds, co, tg, mode,        \* the input
          cds, cco, zero, visited         \* the term being transformed
vars == <<phase, ds, co, tg, mode, cds, cco, zero, visited>>

Pairs == {d \in Pos \X Pos : d[1] < d[2] /\ ~DeltaZero(d[1], d[2])}
PairLess(d, f) == d[1] < f[1] \/ (d[1] = f[1] /\ d[2] < f[2])

Init == /\ phase = "build" /\ ds = {} /\ co = <<>> /\ tg = {} /\ mode = "none"
        /\ cds = {} /\ cco = <<>> /\ zero = FALSE /\ visited = {}

AddDelta(d) ==
  /\ phase = "build" /\ Cardinality(ds) < MaxDeltas
  /\ \A f \in ds : PairLess(f, d)          \* canonical order: each set once
  /\ ds' = ds \cup {d}
  /\ UNCHANGED <<phase, co, tg, mode, cds, cco, zero, visited>>

OnDeltas(D) == UNION {{d[1], d[2]} : d \in D}
Occurrences(x, D, c) == Cardinality({d \in D : x = d[1] \/ x = d[2]}) +
                        Cardinality({k \in 1..Len(c) : c[k] = x})

ChooseCoef(C) ==           \* the coefficient carries the indices C, ascending
  /\ phase = "build" /\ ds # {}
  /\ phase' = "tgt"
  /\ co' = SetToSortSeq(C, LAMBDA x, y : x < y)
  /\ UNCHANGED <<ds, tg, mode, cds, cco, zero, visited>>

Einstein(D, c) == {x \in OnDeltas(D) \cup SeqRange(c) : Occurrences(x, D, c) = 1}

(* precondition of C09: every contracted index sits on the coefficient *)
PreOk(D, c, T) == \A x \in OnDeltas(D) \ T : x \in SeqRange(c)

ChooseTargets(T, md) ==
  /\ phase = "tgt"
  /\ PreOk(ds, co, T)
  /\ tg' = T /\ mode' = md
  /\ phase' = "eval"
  /\ cds' = ds /\ cco' = co /\ zero' = FALSE /\ visited' = {}
  /\ PrintT(<<"CASE", SetToSortSeq(ds, PairLess), co,
              SetToSortSeq(T, LAMBDA x, y : x < y), md>>)
  /\ UNCHANGED <<ds, co>>

(* substitute index x by y in the current term *)
SubIdx(z, x, y) == IF z = x THEN y ELSE z
SubstDeltas(D, x, y) ==
  LET raw == {<<SubIdx(d[1], x, y), SubIdx(d[2], x, y)>> : d \in D}
      nontrivial == {d \in raw : d[1] # d[2]}          \* delta_xx = 1
  IN {IF d[1] < d[2] THEN d ELSE <<d[2], d[1]>> : d \in nontrivial}
SubstZero(D, x, y) ==
  \E d \in D : LET u == SubIdx(d[1], x, y)  v == SubIdx(d[2], x, y)
               IN u # v /\ DeltaZero(u, v)

Substitute(x, y) ==
  /\ zero' = (zero \/ SubstZero(cds, x, y))
  /\ cds' = SubstDeltas(cds, x, y)
  /\ cco' = [k \in 1..Len(cco) |-> SubIdx(cco[k], x, y)]
  /\ visited' = {}                                  \* restart

Step(d) ==
  /\ phase = "eval" /\ ~zero /\ d \in cds \ visited
  /\ LET pk == PrefKill(d) IN
     IF pk = <<>> THEN visited' = visited \cup {d} /\ UNCHANGED <<cds, cco, zero>>
     ELSE IF pk[2] \notin tg THEN Substitute(pk[2], pk[1])
     ELSE IF pk[1] \notin tg /\ EqualInfo(d) THEN Substitute(pk[1], pk[2])
     ELSE visited' = visited \cup {d} /\ UNCHANGED <<cds, cco, zero>>
  /\ UNCHANGED <<phase, ds, co, tg, mode>>

Finish ==
  /\ phase = "eval" /\ (zero \/ cds \subseteq visited)
  /\ phase' = "done"
  /\ UNCHANGED <<ds, co, tg, mode, cds, cco, zero, visited>>

Next ==
  \/ \E d \in Pairs : AddDelta(d)
  \/ \E C \in SUBSET Pos : ChooseCoef(C)
  \/ ChooseTargets(Einstein(ds, co), "einstein")
  \/ (ExplicitTargets = 2 /\ \E T \in SUBSET (OnDeltas(ds) \cup SeqRange(co)) :
                            T # Einstein(ds, co) /\ ChooseTargets(T, "explicit"))
  \/ (ExplicitTargets = 1 /\ \E x \in (OnDeltas(ds) \cup SeqRange(co)) \ Einstein(ds, co) :
                            ChooseTargets(Einstein(ds, co) \cup {x}, "explicit"))
  \/ \E d \in Pairs : Step(d)
  \/ Finish

Spec == Init /\ [][Next]_vars

-----------------------------------------------------------------------------
(* the AST of the abstract term, for ExprSem!Val *)
DeltaObj(d) == [k |-> "D", nid |-> 0, u |-> <<d[1], d[2]>>, l |-> <<>>, e |-> 1, pt |-> <<>>]
CoefObj(c) == [k |-> "N", nid |-> 1, u |-> c, l |-> <<>>, e |-> 1, pt |-> <<>>]
TermOf(D, c, T) ==
  LET objs == [k \in 1..Cardinality(D) |-> DeltaObj(SetToSortSeq(D, PairLess)[k])] \o <<CoefObj(c)>>
      sm == (OnDeltas(D) \cup SeqRange(c)) \ T
  IN [num |-> 1, den |-> 1, s2 |-> 0, s3 |-> 0, objs |-> objs,
      ord |-> SetToSortSeq(sm, LAMBDA x, y : x < y)]

ExprOf(D, c, T, z) == IF z THEN <<>> ELSE <<TermOf(D, c, T)>>

TgtSeq == SetToSortSeq(tg, LAMBDA x, y : x < y)

ValuePreserved ==
  phase = "done" =>
    \A seed \in {1, 2} :
      \A sig \in Assignments(TgtSeq, Universe, Model(seed)) :
        Val(ExprOf(ds, co, tg, FALSE), Universe, tg, sig, Model(seed)) =
        Val(ExprOf(cds, cco, tg, zero), Universe, tg, sig, Model(seed))

Connected(x, y, D) ==      \* x, y in one component of the delta graph D
  LET RECURSIVE Reach(_, _)
      Reach(S, n) == IF n = 0 THEN S
                     ELSE Reach(S \cup {z \in Pos : \E d \in D :
                                          (d[1] \in S /\ d[2] = z) \/ (d[2] \in S /\ d[1] = z)}, n - 1)
  IN y \in Reach({x}, N)

NoInfoLost ==
  phase = "done" /\ ~zero =>
    LET before == OnDeltas(ds) \cup SeqRange(co)
        after == OnDeltas(cds) \cup SeqRange(cco)
    IN \A x \in before \ after :
         \E y \in after : Connected(x, y, ds) /\ AtLeastInfo(y, x)

TargetsKept ==
  phase = "done" /\ ~zero =>
    \A x \in tg : x \in OnDeltas(ds) \cup SeqRange(co) =>
                  x \in OnDeltas(cds) \cup SeqRange(cco)

NothingNew ==
  phase = "done" => OnDeltas(cds) \cup SeqRange(cco) \subseteq OnDeltas(ds) \cup SeqRange(co)
=============================================================================
