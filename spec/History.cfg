SPECIFICATION Spec
CONSTANTS
  NReq = 12
  MaxDepth = 2
PROPERTY CountersMonotone
PROPERTY CacheStable
CHECK_DEADLOCK FALSE
