SPECIFICATION Spec
CONSTANTS
  MaxLen = 5
  MaxNO = 0
  EmitFrom = 7
INVARIANT WickIsVEV
INVARIANT NOVanishes
CHECK_DEADLOCK FALSE
