-------------------------------- MODULE Isr ---------------------------------
(***************************************************************************)
(* Intermediate state representation built explicitly in determinant       *)
(* space, order by order in the perturbation (properties C03, C04, C05).   *)
(*                                                                         *)
(* All quantities are power series in lambda truncated at order K: a       *)
(* series is a sequence s with s[n+1] the coefficient of lambda^n.         *)
(*                                                                         *)
(*   Psi      = psi / sqrt(<psi|psi>)            (normalised ground state) *)
(*   C_I      = a+_a a+_b .. a_i a_j ..   (creators on the virtual labels  *)
(*              in order, then annihilators on the occupied labels in      *)
(*              order - adcgen's convention for intermediate states)       *)
(*   |I#>     = C_I|Psi> - [pp] |Psi><Psi|C_I|Psi>                         *)
(*                       - sum_{K in lower classes} |K><K|C_I|Psi>         *)
(*   S_IJ     = <I#|J#>,  X = S^(-1/2)  from  sum_{a+b+c=n} X_a S_b X_c = 0*)
(*   |I>      = sum_J |J#> X_JI          (canonical labels: ascending)     *)
(*   M_IJ     = <I| H0 + lambda H1 - E(lambda) |J>                         *)
(* A non-canonical label is the signed canonical one, a repeated index     *)
(* gives the zero vector.                                                  *)
(***************************************************************************)
EXTENDS Rspt

-----------------------------------------------------------------------------
(* scalar series *)
SZero(K) == [n \in 1..(K + 1) |-> 0]
SOne(K) == [n \in 1..(K + 1) |-> IF n = 1 THEN 1 ELSE 0]
SMul(a, b) == TLCEval([n \in 1..Len(a) |->
                 FoldSet(LAMBDA k, acc : FAdd(acc, FMul(a[k], b[n + 1 - k])), 0, 1..n)])
SAdd(a, b) == [n \in 1..Len(a) |-> FAdd(a[n], b[n])]
SSub(a, b) == [n \in 1..Len(a) |-> FSub(a[n], b[n])]
SShift(a) == [n \in 1..Len(a) |-> IF n = 1 THEN 0 ELSE a[n - 1]]     \* times lambda

(* r = N^(-1/2) for a series with N_0 = 1:                                 *)
(*   r_n = -1/2 sum_{a+b+c=n, a<n, b<n} r_a r_b N_c                        *)
RECURSIVE InvSqrtRec(_, _)
InvSqrtRec(N, r) ==
  LET n == Len(r) IN        \* r holds r_0..r_{n-1}; compute r_n
  IF n >= Len(N) THEN r
  ELSE LET s == FoldSet(LAMBDA ab, acc :
                     LET a == ab[1]  b == ab[2]  c == n - a - b IN
                     IF c < 0 THEN acc
                     ELSE FAdd(acc, FMul(FMul(r[a + 1], r[b + 1]), N[c + 1])),
                   0, (0..(n - 1)) \X (0..(n - 1)))
       IN InvSqrtRec(N, Append(r, FNeg(FMul(Inv(2), s))))
SInvSqrt(N) == InvSqrtRec(N, <<1>>)

-----------------------------------------------------------------------------
(* vector series over a determinant set DS *)
VZero(DS) == TLCEval([D \in DS |-> 0])
VSZero(DS, K) == [n \in 1..(K + 1) |-> VZero(DS)]
VSScale(s, v) ==      \* scalar series times vector series
  TLCEval([n \in 1..Len(v) |->
     TLCEval([D \in DOMAIN v[1] |->
        FoldSet(LAMBDA k, acc : FAdd(acc, FMul(s[k], v[n + 1 - k][D])), 0, 1..n)])])
VSSub(u, v) == TLCEval([n \in 1..Len(u) |-> VecSub(u[n], v[n])])
VSAdd(u, v) == TLCEval([n \in 1..Len(u) |-> VecAdd(u[n], v[n])])
VSDot(u, v) ==        \* scalar series <u|v>
  TLCEval([n \in 1..Len(u) |->
     FoldSet(LAMBDA k, acc : FAdd(acc, Dot(u[k], v[n + 1 - k])), 0, 1..n)])
VSApply(Cols, v) == TLCEval([n \in 1..Len(v) |-> MatVec(Cols, v[n])])   \* same det set
VSShift(v) == TLCEval([n \in 1..Len(v) |-> IF n = 1 THEN VZero(DOMAIN v[1]) ELSE v[n - 1]])

-----------------------------------------------------------------------------
(* determinant sets with a changed particle number, operators on them *)
Sector(M, dn) == {D \in SUBSET (1..NOrb(M)) : Cardinality(D) = NOcc(M) + dn}

AccumOn(v, st, c) == IF st.s = 0 \/ c = 0 THEN v ELSE [v EXCEPT ![st.D] = FAdd(@, FMul(c, st.s))]

H1ColsOn(M, DS) ==
  LET h == H1One(M)  V == EriTab(M)
      one(D) == FoldSet(LAMBDA pq, v :
                   AccumOn(v, Create(pq[1], Annihilate(pq[2], [s |-> 1, D |-> D])), h[pq]),
                   VZero(DS), {pq \in DOMAIN h : pq[2] \in D /\ (pq[1] \notin D \/ pq[1] = pq[2])})
      two(D) == FoldSet(LAMBDA x, v :
                   AccumOn(v, Create(x[1][1], Create(x[1][2], Annihilate(x[2][2],
                              Annihilate(x[2][1], [s |-> 1, D |-> D])))), V[x]),
                   VZero(DS), {x \in DOMAIN V : x[2][1] \in D /\ x[2][2] \in D})
  IN TLCEval([D \in DS |-> VecAdd(one(D), two(D))])

H0DiagOn(M, DS) == TLCEval([D \in DS |-> E0Det(D, M)])

(* image of a vector over the N-electron determinants under the excitation *)
(* operator of the label [o |-> occupied labels, v |-> virtual labels]     *)
ExcOps(lab) == [k \in 1..Len(lab.v) |-> <<"Fd", lab.v[k]>>] \o
               [k \in 1..Len(lab.o) |-> <<"F", lab.o[k]>>]
ExcApply(lab, vec, DS) ==
  LET ops == ExcOps(lab) IN
  FoldSet(LAMBDA D, acc :
            IF vec[D] = 0 THEN acc
            ELSE AccumOn(acc, ApplyString(ops, Len(ops), [s |-> 1, D |-> D]), vec[D]),
          VZero(DS), DOMAIN vec)

-----------------------------------------------------------------------------
(* canonical labels of a class <<n_occ, n_virt>> *)
Ascending(s) == \A k \in 1..(Len(s) - 1) : s[k] < s[k + 1]
CanonLabels(M, cls) ==
  {[o |-> oo, v |-> vv] : oo \in {s \in [1..cls[1] -> Occs(M)] : Ascending(s)},
                          vv \in {s \in [1..cls[2] -> Virts(M)] : Ascending(s)}}

Classes(variant) ==
  CASE variant = "pp" -> << <<1, 1>>, <<2, 2>> >>
    [] variant = "ip" -> << <<1, 0>>, <<2, 1>> >>
    [] variant = "ea" -> << <<0, 1>>, <<1, 2>> >>
    [] variant = "dip" -> << <<2, 0>>, <<3, 1>> >>
    [] variant = "dea" -> << <<0, 2>>, <<1, 3>> >>
DeltaN(variant) == CASE variant = "pp" -> 0 [] variant = "ip" -> -1 [] variant = "ea" -> 1
                     [] variant = "dip" -> -2 [] variant = "dea" -> 2

-----------------------------------------------------------------------------
(* matrix series over a label set: function <<I, J>> |-> scalar series     *)
(* X = S^(-1/2):  X_0 = 1,  X_n = -1/2 sum_{a,c<n, a+b+c=n} X_a S_b X_c    *)
MatMul3(A, B, C, L) ==       \* plain matrices as functions on L x L
  LET AB == TLCEval([ij \in L \X L |->
               FoldSet(LAMBDA k, acc : FAdd(acc, FMul(A[<<ij[1], k>>], B[<<k, ij[2]>>])), 0, L)])
  IN TLCEval([ij \in L \X L |->
               FoldSet(LAMBDA k, acc : FAdd(acc, FMul(AB[<<ij[1], k>>], C[<<k, ij[2]>>])), 0, L)])
MatAdd(A, B) == TLCEval([ij \in DOMAIN A |-> FAdd(A[ij], B[ij])])
MatScale(c, A) == TLCEval([ij \in DOMAIN A |-> FMul(c, A[ij])])
MatZero(L) == TLCEval([ij \in L \X L |-> 0])
MatOne(L) == TLCEval([ij \in L \X L |-> IF ij[1] = ij[2] THEN 1 ELSE 0])

RECURSIVE InvSqrtMatRec(_, _, _)
InvSqrtMatRec(S, X, L) ==    \* S, X: sequences (orders) of matrices
  LET n == Len(X) IN
  IF n >= Len(S) THEN X
  ELSE LET acc == FoldSet(LAMBDA ac, m :
                     LET a == ac[1]  c == ac[2]  b == n - a - c IN
                     IF b < 0 THEN m ELSE MatAdd(m, MatMul3(X[a + 1], S[b + 1], X[c + 1], L)),
                   MatZero(L), (0..(n - 1)) \X (0..(n - 1)))
       IN InvSqrtMatRec(S, Append(X, MatScale(FNeg(Inv(2)), acc)), L)

-----------------------------------------------------------------------------
(* The construction.  Result:                                              *)
(*   [st  |-> <<class 1 states, class 2 states>>  (label |-> vector series)*)
(*    pre |-> the same for the precursor states,                           *)
(*    psi |-> normalised ground state series, R |-> the RSPT record,       *)
(*    DS  |-> determinant set of the variant's sector]                     *)
NormalisedGs(R, K) ==
  LET psi == [n \in 1..(K + 1) |-> R.psi[n]]
      N == VSDot(psi, psi)
  IN VSScale(SInvSqrt(N), psi)

ClassStates(M, variant, K, PsiN, cls, lower, DS) ==
  \* lower: sequence of (label |-> series) of the lower classes
  LET L == CanonLabels(M, cls)
      raw == TLCEval([I \in L |-> TLCEval([n \in 1..(K + 1) |-> ExcApply(I, PsiN[n], DS)])])
      gsproj == TLCEval([I \in L |->
                  IF variant = "pp" THEN VSSub(raw[I], VSScale(VSDot(PsiN, raw[I]), PsiN))
                  ELSE raw[I]])
      pre == TLCEval([I \in L |->
               FoldSet(LAMBDA c, v :
                 FoldSet(LAMBDA Kl, w : VSSub(w, VSScale(VSDot(lower[c][Kl], raw[I]), lower[c][Kl])),
                         v, DOMAIN lower[c]),
                 gsproj[I], 1..Len(lower))])
      S == TLCEval([n \in 1..(K + 1) |->
              TLCEval([ij \in L \X L |-> VSDot(pre[ij[1]], pre[ij[2]])[n]])])
      X == InvSqrtMatRec(S, <<MatOne(L)>>, L)
      st == TLCEval([I \in L |->
              FoldSet(LAMBDA J, v :
                        VSAdd(v, VSScale([n \in 1..(K + 1) |-> X[n][<<J, I>>]], pre[J])),
                      VSZero(DS, K), L)])
  IN [pre |-> pre, st |-> st, S |-> S]

IsrBuild(M, variant, K, ncls) ==
  LET R == Rspt(M, K)
      PsiN == NormalisedGs(R, K)
      DS == Sector(M, DeltaN(variant))
      c1 == ClassStates(M, variant, K, PsiN, Classes(variant)[1], <<>>, DS)
      c2 == IF ncls >= 2
            THEN ClassStates(M, variant, K, PsiN, Classes(variant)[2], <<c1.st>>, DS)
            ELSE [pre |-> <<>>, st |-> <<>>, S |-> <<>>]
  IN [R |-> R, psi |-> PsiN, DS |-> DS, variant |-> variant, K |-> K,
      st |-> <<c1.st, c2.st>>, pre |-> <<c1.pre, c2.pre>>,
      H1 |-> H1ColsOn(M, DS), H0 |-> H0DiagOn(M, DS)]

-----------------------------------------------------------------------------
(* signed canonical form of a label given as index tuples *)
LabelState(B, c, occ, virt, K) ==
  \* B: IsrBuild record, c: class number, occ / virt: orbital tuples
  IF HasRepeat(occ) \/ HasRepeat(virt) THEN [sign |-> 0, lab |-> [o |-> <<>>, v |-> <<>>]]
  ELSE [sign |-> FMul(ParitySign(occ), ParitySign(virt)),
        lab |-> [o |-> Sorted(occ), v |-> Sorted(virt)]]

(* secular matrix element series between two labelled states               *)
(*   M_IJ(n) = sum <I_a|H0|J_b> (a+b=n) + sum <I_a|H1|J_b> (a+b=n-1)       *)
(*             - sum E_c <I_a|J_b> (a+b+c=n)      [if subtract_gs]         *)
MatrixElement(B, vi, vj, subtractGs) ==
  LET K == B.K
      h0j == TLCEval([n \in 1..(K + 1) |-> TLCEval([D \in B.DS |-> FMul(B.H0[D], vj[n][D])])])
      h1j == VSShift(VSApply(B.H1, vj))
      tot == VSDot(vi, VSAdd(h0j, h1j))
      E == [n \in 1..(K + 1) |-> B.R.E[n]]
  IN IF subtractGs THEN SSub(tot, SMul(E, VSDot(vi, vj))) ELSE tot

-----------------------------------------------------------------------------
(* Tables for reference tensors.  M.isr =                                  *)
(*   [variant, K, ncls, req : Seq(request)]                                *)
(* request = [nid, what : "M" | "S", order, sub : BOOLEAN,                 *)
(*            roles : Seq("bo" | "bv" | "ko" | "kv"), bc, kc : class no]   *)
(* The reference tensor is a non-symmetric tensor whose index tuple lists  *)
(* bra and ket labels in the order of the request's index string; roles    *)
(* says which position is a bra/ket occupied/virtual label.                *)
Pick(x, roles, role) ==
  LET ps == SelectSeq([k \in 1..Len(roles) |-> k], LAMBDA k : roles[k] = role)
  IN [k \in 1..Len(ps) |-> x[ps[k]]]

RoleDomain(roles, M) ==
  {t \in [1..Len(roles) -> 1..NOrb(M)] :
     \A k \in 1..Len(roles) : IF roles[k] \in {"bo", "ko"} THEN t[k] \in Occs(M) ELSE t[k] \in Virts(M)}

(* canonical matrices: <<I, J>> |-> series, for class pair (bc, kc) *)
CanonMatrix(B, bc, kc, sub) ==
  LET Lb == DOMAIN B.st[bc]  Lk == DOMAIN B.st[kc] IN
  TLCEval([ij \in Lb \X Lk |-> MatrixElement(B, B.st[bc][ij[1]], B.st[kc][ij[2]], sub)])
CanonOverlap(B, bc, kc) ==
  LET Lb == DOMAIN B.st[bc]  Lk == DOMAIN B.st[kc] IN
  TLCEval([ij \in Lb \X Lk |-> VSDot(B.st[bc][ij[1]], B.st[kc][ij[2]])])

RequestTable(B, r, M) ==
  LET can == IF r.what = "M" THEN CanonMatrix(B, r.bc, r.kc, r.sub) ELSE CanonOverlap(B, r.bc, r.kc)
  IN TLCEval([x \in {<<4, Len(r.roles)>> \o t : t \in RoleDomain(r.roles, M)} |->
       LET t == SubSeq(x, 3, Len(x))
           b == LabelState(B, r.bc, Pick(t, r.roles, "bo"), Pick(t, r.roles, "bv"), B.K)
           k == LabelState(B, r.kc, Pick(t, r.roles, "ko"), Pick(t, r.roles, "kv"), B.K)
       IN IF b.sign = 0 \/ k.sign = 0 THEN 0
          ELSE FMul(FMul(b.sign, k.sign), can[<<b.lab, k.lab>>][r.order + 1])])

(***************************************************************************)
(* Properties (C05).  Operator                                             *)
(*   d = 1/(nc! na!) sum d^{p..}_{q..} a+_p.. (a_q.. reversed)             *)
(*     = sum over ascending tuples d^{p..}_{q..} a+_p1..a+_pnc a_qna..a_q1 *)
(* with the model's values of the antisymmetric tensor d.                  *)
(*   "T": transition moment   p_I sum_I X_I <I|d|Psi>                      *)
(*   "P": expectation value   p_I p_J sum_IJ X_I <I| d - <d>_gs |J> Y_J    *)
(* sums over unrestricted indices, p = 1/sqrt(n_o! n_v!), X / Y arbitrary  *)
(* antisymmetric amplitude vectors: in terms of canonical labels the       *)
(* factor is sqrt(n_o! n_v!).                                              *)
AscTuples(S, k) == {t \in [1..k -> S] : Ascending(t)}

GenOpCols(M, nid, nc, na, DSfrom, DSto) ==
  TLCEval([D \in DSfrom |->
    FoldSet(LAMBDA pq, v :
              LET ops == [k \in 1..nc |-> <<"Fd", pq[1][k]>>] \o
                         [k \in 1..na |-> <<"F", pq[2][na + 1 - k]>>]
              IN AccumOn(v, ApplyString(ops, Len(ops), [s |-> 1, D |-> D]),
                         TensorDirect("A", nid, pq[1], pq[2], M)),
            VZero(DSto), AscTuples(1..NOrb(M), nc) \X AscTuples(D, na))])

MatVecTo(Cols, v, DSto) ==
  TLCEval([Dp \in DSto |-> FoldSet(LAMBDA D, a : FAdd(a, FMul(Cols[D][Dp], v[D])), 0, DOMAIN v)])
VSApplyTo(Cols, v, DSto) == TLCEval([n \in 1..Len(v) |-> MatVecTo(Cols, v[n], DSto)])

ClassFactor(variant, c) ==
  LET cl == Classes(variant)[c] IN SqrtImage(Fact(cl[1]) * Fact(cl[2]))

AmplVal(M, nid, lab) == TensorDirect("M", nid, lab.v, lab.o, M)

PropertyValue(B, r, M) ==
  LET K == B.K
      N0 == Dets(M)
  IN IF r.what = "T" THEN
       LET dpsi == VSApplyTo(GenOpCols(M, r.dn, r.nc, r.na, N0, B.DS), B.psi, B.DS)
           tot == FoldSet(LAMBDA I, acc :
                            SAdd(acc, [n \in 1..(K + 1) |->
                                         FMul(AmplVal(M, r.xn, I), VSDot(B.st[r.bc][I], dpsi)[n])]),
                          SZero(K), DOMAIN B.st[r.bc])
       IN FMul(ClassFactor(B.variant, r.bc), tot[r.order + 1])
     ELSE
       LET dcols == GenOpCols(M, r.dn, r.nc, r.na, B.DS, B.DS)
           gsd == IF r.sub /\ r.nc = r.na
                  THEN ExpectSeries(B.R, GenOpCols(M, r.dn, r.nc, r.na, N0, N0), K)
                  ELSE SZero(K)
           dket == TLCEval([J \in DOMAIN B.st[r.kc] |-> VSApplyTo(dcols, B.st[r.kc][J], B.DS)])
           tot == FoldSet(LAMBDA IJ, acc :
                    LET I == IJ[1]  J == IJ[2]
                        el == SSub(VSDot(B.st[r.bc][I], dket[J]),
                                   IF r.bc = r.kc /\ I = J THEN gsd ELSE SZero(K))
                        w == FMul(AmplVal(M, r.xn, I), AmplVal(M, r.yn, J))
                    IN SAdd(acc, [n \in 1..(K + 1) |-> FMul(w, el[n])]),
                    SZero(K), (DOMAIN B.st[r.bc]) \X (DOMAIN B.st[r.kc]))
       IN FMul(FMul(ClassFactor(B.variant, r.bc), ClassFactor(B.variant, r.kc)), tot[r.order + 1])

(* matrix-vector product  r_I = p_I p_J sum_J M_IJ Y_J  (unrestricted J,   *)
(* p = 1/sqrt(n_o! n_v!)): in canonical labels p_I sqrt(n_o! n_v!)_J sum   *)
MvpTable(B, r, M) ==
  LET can == CanonMatrix(B, r.bc, r.kc, r.sub)
      Lk == DOMAIN B.st[r.kc]
      fac == FMul(Inv(ClassFactor(B.variant, r.bc)), ClassFactor(B.variant, r.kc))
  IN TLCEval([x \in {<<4, Len(r.roles)>> \o t : t \in RoleDomain(r.roles, M)} |->
       LET t == SubSeq(x, 3, Len(x))
           b == LabelState(B, r.bc, Pick(t, r.roles, "bo"), Pick(t, r.roles, "bv"), B.K)
       IN IF b.sign = 0 THEN 0
          ELSE FMul(FMul(b.sign, fac),
                    FoldSet(LAMBDA J, a : FAdd(a, FMul(can[<<b.lab, J>>][r.order + 1], AmplVal(M, r.yn, J))),
                            0, Lk))])

IsrModel(M0) ==
  LET M == RsptModel(M0)          \* amplitude tables for the derived expressions
      g == M.isr
      B == IsrBuild(M, g.variant, g.K, g.ncls)
      tabs == FoldSet(LAMBDA k, t :
                        PutTab(t, g.req[k].nid,
                               IF g.req[k].what \in {"T", "P"}
                               THEN ConstTab(PropertyValue(B, g.req[k], M))
                               ELSE IF g.req[k].what = "V" THEN MvpTable(B, g.req[k], M)
                               ELSE RequestTable(B, g.req[k], M)),
                      M.tabs, 1..Len(g.req))
  IN [M EXCEPT !.tabs = tabs]

(* sanity of the construction (model-checked by MC_Isr): the explicit      *)
(* intermediate states are orthonormal order by order, M is symmetric      *)
IsrSane(M, variant, K, ncls) ==
  LET B == IsrBuild(M, variant, K, ncls)
      all == UNION {{<<c, I>> : I \in DOMAIN B.st[c]} : c \in 1..ncls}
  IN /\ \A x, y \in all :
          LET ov == VSDot(B.st[x[1]][x[2]], B.st[y[1]][y[2]])
          IN ov = (IF x = y THEN SOne(K) ELSE SZero(K))
     /\ \A x, y \in all :
          MatrixElement(B, B.st[x[1]][x[2]], B.st[y[1]][y[2]], TRUE) =
          MatrixElement(B, B.st[y[1]][y[2]], B.st[x[1]][x[2]], TRUE)
     /\ (variant = "pp" =>
          \A x \in all : VSDot(B.psi, B.st[x[1]][x[2]]) = SZero(K))
=============================================================================
