------------------------------ MODULE Codegen ------------------------------
(***************************************************************************)
(* Abstract syntax and interpreter of the programs emitted by              *)
(* adcgen.generate_code (property C17).                                    *)
(*                                                                         *)
(* program = Seq(block)                                                    *)
(* block   = [perms : Seq([f : 1 | -1, ps : Seq(<<p, q>>)]), lines]        *)
(*           value = (1 + sum_k f_k P_k) applied to the sum of its lines,  *)
(*           (P X)(sigma) = X(sigma with the values of p and q exchanged)  *)
(* line    = [num, den, s2, s3, node]                                      *)
(* node    = [t, o, lab, subs, out, args]                                  *)
(*   "ten" : a named tensor block. einsum syntax: positional axes in the   *)
(*           order of Obj.idx (amplitudes: lower then upper indices, every *)
(*           other tensor: upper then lower); libtensor syntax: labels lab *)
(*   "ein" : einsum("subs[1],subs[2],..->out", args...): positional axes   *)
(*   "con" : contract(out, args...)  sum over the labels out (libtensor)   *)
(*   "dot" : dot_product(args...)    sum over all labels of the args       *)
(*   "mul" : product of components; "sym" : plain symbol; "one" : 1        *)
(***************************************************************************)
EXTENDS ExprSem

TenAt(o, vals, M) ==
  IF o.k = "D" THEN (IF vals[1] = vals[2] THEN 1 ELSE 0)
  ELSE IF o.k = "M"
       THEN TensorAt("M", o.nid, SubSeq(vals, o.nl + 1, o.nl + o.nu), SubSeq(vals, 1, o.nl), M)
       ELSE TensorAt(o.k, o.nid, SubSeq(vals, 1, o.nu), SubSeq(vals, o.nu + 1, o.nu + o.nl), M)

(* positional (einsum) semantics: value of node at the axis values vals *)
RECURSIVE EvalE(_, _, _, _), EinSum(_, _, _, _, _, _)
EinSum(nd, labs, k, sig, ev, M) ==
  IF k > Len(labs)
  THEN FoldSet(LAMBDA j, a : IF a = 0 THEN 0
                             ELSE FMul(a, EvalE(nd.args[j], [p \in 1..Len(nd.subs[j]) |-> sig[nd.subs[j][p]]], ev, M)),
               1, 1..Len(nd.args))
  ELSE FoldSet(LAMBDA v, a : FAdd(a, EinSum(nd, labs, k + 1, [sig EXCEPT ![labs[k]] = v], ev, M)),
               0, IdxRange(ev.idx[labs[k]], M))

EvalE(nd, vals, ev, M) ==
  CASE nd.t = "one" -> 1
    [] nd.t = "sym" -> TensorAt("Y", nd.o.nid, <<>>, <<>>, M)
    [] nd.t = "ten" -> TenAt(nd.o, vals, M)
    [] nd.t = "mul" ->
         \* scalar components, at most the last component carries the axes
         FoldSet(LAMBDA j, a : FMul(a, EvalE(nd.args[j], IF j = Len(nd.args) THEN vals ELSE <<>>, ev, M)),
                 1, 1..Len(nd.args))
    [] nd.t = "ein" ->
         LET sig0 == [j \in 1..Len(ev.idx) |->
                        IF \E p \in 1..Len(nd.out) : nd.out[p] = j
                        THEN vals[CHOOSE p \in 1..Len(nd.out) : nd.out[p] = j] ELSE 0]
             all == UNION {SeqRange(nd.subs[j]) : j \in 1..Len(nd.subs)}
             summed == SetToSortSeq(all \ SeqRange(nd.out), LAMBDA x, y : x < y)
         IN EinSum(nd, summed, 1, sig0, ev, M)
    [] OTHER -> Assert(FALSE, <<"einsum interpreter: node", nd.t>>)

(* name based (libtensor) semantics: value of node at the assignment sig *)
RECURSIVE EvalL(_, _, _, _), LabelsOf(_), ConSum(_, _, _, _, _, _)
LabelsOf(nd) ==
  IF nd.t = "ten" THEN SeqRange(nd.lab)
  ELSE IF nd.t = "con" THEN (UNION {LabelsOf(nd.args[j]) : j \in 1..Len(nd.args)}) \ SeqRange(nd.out)
  ELSE IF nd.t = "dot" THEN {}
  ELSE IF nd.t = "mul" THEN UNION {LabelsOf(nd.args[j]) : j \in 1..Len(nd.args)}
  ELSE {}
ConSum(nd, labs, k, sig, ev, M) ==
  IF k > Len(labs)
  THEN FoldSet(LAMBDA j, a : IF a = 0 THEN 0 ELSE FMul(a, EvalL(nd.args[j], sig, ev, M)), 1, 1..Len(nd.args))
  ELSE FoldSet(LAMBDA v, a : FAdd(a, ConSum(nd, labs, k + 1, [sig EXCEPT ![labs[k]] = v], ev, M)),
               0, IdxRange(ev.idx[labs[k]], M))
EvalL(nd, sig, ev, M) ==
  CASE nd.t = "one" -> 1
    [] nd.t = "sym" -> TensorAt("Y", nd.o.nid, <<>>, <<>>, M)
    [] nd.t = "ten" -> TenAt(nd.o, [p \in 1..Len(nd.lab) |-> sig[nd.lab[p]]], M)
    [] nd.t = "mul" -> FoldSet(LAMBDA j, a : FMul(a, EvalL(nd.args[j], sig, ev, M)), 1, 1..Len(nd.args))
    [] nd.t = "con" -> ConSum(nd, nd.out, 1, sig, ev, M)
    [] nd.t = "dot" ->
         LET all == UNION {LabelsOf(nd.args[j]) : j \in 1..Len(nd.args)}
         IN ConSum(nd, SetToSortSeq(all, LAMBDA x, y : x < y), 1, sig, ev, M)
    [] OTHER -> Assert(FALSE, <<"libtensor interpreter: node", nd.t>>)

(* the axes of the top-level node of a line (einsum syntax): the requested *)
(* target order                                                            *)
LineValue(ln, sig, ev, M) ==
  LET vals == [p \in 1..Len(ev.a.target) |-> sig[ev.a.target[p]]]
      v == IF ev.a.backend = "einsum" THEN EvalE(ln.node, vals, ev, M)
           ELSE EvalL(ln.node, sig, ev, M)
  IN FMul(Pref(ln.num, ln.den, ln.s2, ln.s3), v)

SwapSig(sig, ps) ==
  \* P2 P1 applied to an expression one after another = the transpositions
  \* applied to the assignment in reverse order
  LET RECURSIVE Ap(_, _)
      Ap(s, k) == IF k > Len(ps) THEN s
                  ELSE LET j == Len(ps) + 1 - k IN
                       Ap([s EXCEPT ![ps[j][1]] = s[ps[j][2]], ![ps[j][2]] = s[ps[j][1]]], k + 1)
  IN Ap(sig, 1)

BlockValue(b, sig, ev, M) ==
  LET raw(sg) == FoldSet(LAMBDA j, a : FAdd(a, LineValue(b.lines[j], sg, ev, M)), 0, 1..Len(b.lines))
  IN FAdd(raw(sig),
          FoldSet(LAMBDA k, a : FAdd(a, FMul(IF b.perms[k].f = 1 THEN 1 ELSE P - 1,
                                              raw(SwapSig(sig, b.perms[k].ps)))),
                  0, 1..Len(b.perms)))

ProgramValue(prog, sig, ev, M) ==
  FoldSet(LAMBDA j, a : FAdd(a, BlockValue(prog[j], sig, ev, M)), 0, 1..Len(prog))

(* structural clauses *)
RECURSIVE BlockNamesOk(_, _)
BlockNamesOk(nd, ev) ==
  /\ (nd.t = "ein" =>
        \A j \in 1..Len(nd.args) :
          (nd.args[j].t = "ten" /\ nd.args[j].o.block # <<>>) =>
             [p \in 1..Len(nd.subs[j]) |-> ev.idx[nd.subs[j][p]].s] = nd.args[j].o.block)
  /\ (nd.t = "ten" /\ nd.lab # <<>> /\ nd.o.block # <<>> =>
        [p \in 1..Len(nd.lab) |-> ev.idx[nd.lab[p]].s] = nd.o.block)
  /\ \A j \in 1..Len(nd.args) : BlockNamesOk(nd.args[j], ev)

TopOutOk(nd, ev) ==
  CASE nd.t = "ein" -> nd.out = ev.a.target
    [] nd.t = "mul" -> (nd.args[Len(nd.args)].t = "ein" => nd.args[Len(nd.args)].out = ev.a.target)
    [] OTHER -> TRUE

CodegenContract(ev, M) ==
  LET prog == ev.a.prog
      tg == SeqRange(ev.tgt)
      lines == UNION {{prog[b].lines[j] : j \in 1..Len(prog[b].lines)} : b \in 1..Len(prog)}
      bad == {sig \in Assignments(ev.tgt, ev.idx, M) :
                Val(ev.pre, ev.idx, tg, sig, M) # ProgramValue(prog, sig, ev, M)}
  IN (IF ExprOrdOk(ev.pre, tg) THEN <<>> ELSE << <<"ord", "loop order">> >>)
     \o (IF \A ln \in lines : BlockNamesOk(ln.node, ev) THEN <<>>
         ELSE << <<"block-name", "a tensor block name does not match the spaces of its index string">> >>)
     \o (IF ev.a.backend # "einsum" \/ \A ln \in lines : TopOutOk(ln.node, ev) THEN <<>>
         ELSE << <<"output-subscript", "the outer einsum does not produce the requested target order">> >>)
     \o (IF bad = {} THEN <<>>
         ELSE LET sig == CHOOSE s \in bad : TRUE IN
              << <<"val", [n |-> Cardinality(bad), at |-> sig,
                          expr |-> Val(ev.pre, ev.idx, tg, sig, M),
                          program |-> ProgramValue(prog, sig, ev, M)]>> >>)
=============================================================================
