SPECIFICATION Spec
CONSTANTS
  MaxLen = 4
  MaxNO = 1
  EmitFrom = 2
INVARIANT WickIsVEV
INVARIANT NOVanishes
CHECK_DEADLOCK FALSE
