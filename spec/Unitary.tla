------------------------------ MODULE Unitary ------------------------------
(***************************************************************************)
(* Unitary-tensor simplification (property C20).                           *)
(*                                                                         *)
(* A term is abstracted to  us : a sequence of factors U_{xy} (pairs of    *)
(* positions of a universe of general indices; a repeated pair is a power  *)
(* of U), co : the index tuple of one non-symmetric remainder tensor,      *)
(* tg : the target indices.  Build phase enumerates the inputs ("CASE"),   *)
(* the eval phase transcribes simplify_unitary: pick a pair of factors     *)
(* sharing the first or the second index, contracted and occurring exactly *)
(* twice in the term, replace it by a delta; optionally evaluate deltas.   *)
(* Invariant = contract of C20: the value under an ORTHOGONAL matrix model *)
(* is unchanged for every target assignment, and a term without a          *)
(* resolvable pair is left untouched.                                      *)
(*                                                                         *)
(* TraceInput marks the input class that the pinned commit got wrong (a    *)
(* pair sharing BOTH indices, both summed only on that pair: delta_qq      *)
(* collapsed to 1 and the trace of the identity was lost).  Since the      *)
(* repair ("fix: simplify_unitary keeps a pair ...") such a pair is not    *)
(* resolvable; OldBehaviourDeviates documents that the old rule was wrong. *)
(***************************************************************************)
EXTENDS ExprSem

CONSTANTS NIdx, MaxU, ExplicitTargets

Universe == [k \in 1..NIdx |-> [n |-> <<"p","q","r","s","t","u">>[k], s |-> "g", p |-> ""]]
Pos == 1..NIdx

(* an orthogonal 3 x 3 matrix over F_P (Cayley transform of a random skew   *)
(* symmetric matrix); general indices range over 2 occ + 1 virt orbitals   *)
UMat == << <<3234, 4317, 752>>, <<6956, 6884, 7695>>, <<2933, 9037, 9243>> >>
Model ==
  [noa |-> 2, nob |-> 0, nva |-> 1, nvb |-> 0, seed |-> 1,
   restricted |-> FALSE, spincons |-> FALSE, scn |-> <<>>, fock |-> "gen", eri |-> "gen",
   re |-> 0, rD |-> 0, rf |-> 0, rv |-> 0, rV |-> 0, rU |-> 2, umat |-> UMat,
   bkn |-> <<0, 0>>, tabs |-> << <<>>, <<>> >>]
ASSUME UnitaryCertified(Model, 1..3)

VARIABLES phase, us, co, tg, mode, cus, cds, cco
vars == <<phase, us, co, tg, mode, cus, cds, cco>>

UPairs == {d \in Pos \X Pos : d[1] # d[2]}
PairLeq(d, f) == d[1] < f[1] \/ (d[1] = f[1] /\ d[2] <= f[2])

Init == /\ phase = "build" /\ us = <<>> /\ co = <<>> /\ tg = {} /\ mode = "none"
        /\ cus = <<>> /\ cds = {} /\ cco = <<>>

AddU(d) ==
  /\ phase = "build" /\ Len(us) < MaxU
  /\ (IF us = <<>> THEN TRUE ELSE PairLeq(us[Len(us)], d))   \* each multiset once
  /\ us' = Append(us, d)
  /\ UNCHANGED <<phase, co, tg, mode, cus, cds, cco>>

Occ(x, U, D, c) ==
  Cardinality({k \in 1..Len(U) : U[k][1] = x}) + Cardinality({k \in 1..Len(U) : U[k][2] = x})
  + Cardinality({d \in D : d[1] = x}) + Cardinality({d \in D : d[2] = x})
  + Cardinality({k \in 1..Len(c) : c[k] = x})
AllIdx(U, D, c) == {U[k][1] : k \in 1..Len(U)} \cup {U[k][2] : k \in 1..Len(U)}
                   \cup {d[1] : d \in D} \cup {d[2] : d \in D} \cup SeqRange(c)
Einstein(U, c) == {x \in AllIdx(U, {}, c) : Occ(x, U, {}, c) = 1}

ChooseCoef(C) ==
  /\ phase = "build" /\ Len(us) >= 1
  /\ phase' = "tgt"
  /\ co' = SetToSortSeq(C, LAMBDA x, y : x < y)
  /\ UNCHANGED <<us, tg, mode, cus, cds, cco>>

TraceInput(U, c, T) ==
  \E a, b \in 1..Len(U) : a < b /\ U[a] = U[b] /\
     \E z \in {1, 2} : LET x == U[a][z]  y == U[a][3 - z] IN
        x \notin T /\ y \notin T /\ Occ(y, U, {}, c) = 2 /\ Occ(x, U, {}, c) = 2

ChooseTargets(T, md) ==
  /\ phase = "tgt"
  /\ tg' = T /\ mode' = md /\ phase' = "eval"
  /\ cus' = us /\ cds' = {} /\ cco' = co
  /\ PrintT(<<"CASE", us, co, SetToSortSeq(T, LAMBDA x, y : x < y), md>>)
  /\ UNCHANGED <<us, co>>

(* transcription: a resolvable pair (a < b positions in cus) and the delta *)
Resolvable(a, b) ==
  LET f == cus[a]  g == cus[b] IN
  IF f = g /\ \A z \in {1, 2} : f[z] \notin tg /\ Occ(f[z], cus, cds, cco) = 2 THEN <<>>
  ELSE IF f[1] = g[1] /\ f[1] \notin tg /\ Occ(f[1], cus, cds, cco) = 2 THEN <<f[2], g[2]>>
  ELSE IF f[2] = g[2] /\ f[2] \notin tg /\ Occ(f[2], cus, cds, cco) = 2 THEN <<f[1], g[1]>>
  ELSE <<>>

RemoveTwo(s, a, b) == [k \in 1..(Len(s) - 2) |->
                         LET k1 == IF k < a THEN k ELSE k + 1
                             k2 == IF k1 < b THEN k1 ELSE k1 + 1 IN s[k2]]

Step(a, b) ==
  /\ phase = "eval" /\ a < b /\ b <= Len(cus)
  /\ Resolvable(a, b) # <<>>
  /\ LET d == Resolvable(a, b) IN
       cds' = IF d[1] = d[2] THEN cds          \* delta_qq = 1
              ELSE cds \cup {IF d[1] < d[2] THEN d ELSE <<d[2], d[1]>>}
  /\ cus' = RemoveTwo(cus, a, b)
  /\ UNCHANGED <<phase, us, co, tg, mode, cco>>

NoPair == \A a, b \in 1..Len(cus) : a < b => Resolvable(a, b) = <<>>

Finish == /\ phase = "eval" /\ NoPair /\ phase' = "done"
          /\ UNCHANGED <<us, co, tg, mode, cus, cds, cco>>

Next ==
  \/ \E d \in UPairs : AddU(d)
  \/ \E C \in SUBSET Pos : ChooseCoef(C)
  \/ ChooseTargets(Einstein(us, co), "einstein")
  \/ (ExplicitTargets /\ \E x \in AllIdx(us, {}, co) \ Einstein(us, co) :
                            ChooseTargets(Einstein(us, co) \cup {x}, "explicit"))
  \/ \E a, b \in 1..MaxU : Step(a, b)
  \/ Finish
Spec == Init /\ [][Next]_vars

-----------------------------------------------------------------------------
UObj(d) == [k |-> "N", nid |-> 2, u |-> <<d[1], d[2]>>, l |-> <<>>, e |-> 1, pt |-> <<>>]
DObj(d) == [k |-> "D", nid |-> 0, u |-> <<d[1], d[2]>>, l |-> <<>>, e |-> 1, pt |-> <<>>]
CObj(c) == [k |-> "N", nid |-> 1, u |-> c, l |-> <<>>, e |-> 1, pt |-> <<>>]
PairLess(d, f) == d[1] < f[1] \/ (d[1] = f[1] /\ d[2] < f[2])
TermOf(U, D, c, T) ==
  LET ds == SetToSortSeq(D, PairLess)
      objs == [k \in 1..Len(U) |-> UObj(U[k])] \o [k \in 1..Len(ds) |-> DObj(ds[k])] \o <<CObj(c)>>
  IN [num |-> 1, den |-> 1, s2 |-> 0, s3 |-> 0, objs |-> objs,
      ord |-> SetToSortSeq(AllIdx(U, D, c) \ T, LAMBDA x, y : x < y)]

TgtSeq == SetToSortSeq(tg, LAMBDA x, y : x < y)

ValuePreserved ==
  phase = "done" =>
    \A sig \in Assignments(TgtSeq, Universe, Model) :
      Val(<<TermOf(us, {}, co, tg)>>, Universe, tg, sig, Model) =
      Val(<<TermOf(cus, cds, cco, tg)>>, Universe, tg, sig, Model)

(* the rule of the pinned commit (delta_qq = 1, pair removed) changes the  *)
(* value on the trace inputs: the exclusion above is needed                *)
OldBehaviourDeviates ==
  phase = "eval" /\ Len(us) = 2 /\ co = <<>> /\ TraceInput(us, co, tg) =>
    \E sig \in Assignments(TgtSeq, Universe, Model) :
      Val(<<TermOf(us, {}, co, tg)>>, Universe, tg, sig, Model) #
      Val(<<TermOf(<<>>, {}, co, tg)>>, Universe, tg, sig, Model)
=============================================================================
