SPECIFICATION Spec
CONSTANTS
  SizeSet = 2
  Seeds = {1, 2, 3}
  Order = 3
INVARIANT Sane
INVARIANT ReSane
CHECK_DEADLOCK FALSE
