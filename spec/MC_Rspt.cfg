SPECIFICATION Spec
CONSTANTS
  SizeSet = 2
  Seeds = {1, 2, 3}
  Order = 3
INVARIANT Sane
CHECK_DEADLOCK FALSE
