------------------------------ MODULE History ------------------------------
(***************************************************************************)
(* Call histories (property C19).                                          *)
(*                                                                         *)
(* The process-global state of adcgen that a request can observe or change *)
(* is abstracted to: the log of requests, the generic-index counters (how  *)
(* many generic names each request consumes) and the member caches (which  *)
(* cached results exist).  Req(r) is enabled for every request of the menu *)
(* at every point: the library has no enabling conditions between          *)
(* requests, which is exactly why the property quantifies over all         *)
(* histories.  The build phase enumerates every history up to MaxDepth and *)
(* prints it ("HIST"); each one is replayed in a fresh interpreter and     *)
(* every step is validated against the reference behaviour of the same     *)
(* request in a fresh process (Contracts!HistoryContract).                 *)
(*                                                                         *)
(* Design-level invariants of the abstraction:                             *)
(*   CountersMonotone : generic counters never decrease                    *)
(*   CacheStable      : a cached entry never disappears                    *)
(***************************************************************************)
EXTENDS Integers, Sequences, FiniteSets, TLC

CONSTANTS NReq, MaxDepth
(* Consumes[r]: number of generic index names request r draws (abstract),   *)
(* Cached[r]  : whether the result of r is kept in a member cache; the      *)
(* menu itself (what request r is) lives in harness/props/c19.py           *)
Consumes == [r \in 1..NReq |-> 2 + (r % 4) * 2]
Cached == [r \in 1..NReq |-> r % 5 # 0]

VARIABLES log, counter, cache
vars == <<log, counter, cache>>

Init == log = <<>> /\ counter = 0 /\ cache = {}

Req(r) ==
  /\ Len(log) < MaxDepth
  /\ log' = Append(log, r)
  /\ counter' = IF r \in cache THEN counter ELSE counter + Consumes[r]
  /\ cache' = IF Cached[r] THEN cache \cup {r} ELSE cache
  /\ PrintT(<<"HIST", log'>>)

Next == \E r \in 1..NReq : Req(r)
Spec == Init /\ [][Next]_vars

CountersMonotone == [][counter' >= counter]_vars
CacheStable == [][cache \subseteq cache']_vars
=============================================================================
