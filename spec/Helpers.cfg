SPECIFICATION Spec
CONSTANTS
  MaxOrder = 6
INVARIANT Sane
CHECK_DEADLOCK FALSE
