-------------------------------- MODULE Wick --------------------------------
(***************************************************************************)
(* Wick's theorem (property C01).                                          *)
(*                                                                         *)
(* Build phase: AddOp appends a creator / annihilator carrying one of the  *)
(* indices i,j (occupied), a,b (virtual), p,q (general) - indices of one   *)
(* space are introduced in order, so each renaming class is built once.    *)
(* Emit chooses the placement of normal-ordered groups and the index set   *)
(* of the coefficient tensor (every index that occurs twice or more must   *)
(* be on it: the precondition of C01; the other indices may be targets)    *)
(* and prints the case that is replayed into adcgen.wicks.                 *)
(*                                                                         *)
(* Checked on every built string, for every orbital assignment of a        *)
(* 2 occupied + 2 virtual model:                                           *)
(*   WickIsVEV   : the transcribed recursion of adcgen (contraction table  *)
(*                 with the general-index split, sign (-1)^(i-1),          *)
(*                 prefilter) equals the determinant expectation value     *)
(*   NOVanishes  : the expectation value of a single normal-ordered group  *)
(*                 is zero (sanity of the oracle's normal ordering)        *)
(***************************************************************************)
EXTENDS Fermi

CONSTANTS MaxLen, MaxNO, EmitFrom     \* strings of length >= EmitFrom are emitted

Universe == << [n |-> "i", s |-> "o", p |-> ""], [n |-> "j", s |-> "o", p |-> ""],
               [n |-> "a", s |-> "v", p |-> ""], [n |-> "b", s |-> "v", p |-> ""],
               [n |-> "p", s |-> "g", p |-> ""], [n |-> "q", s |-> "g", p |-> ""] >>
Pos == 1..6
Model == [noa |-> 2, nob |-> 0, nva |-> 2, nvb |-> 0, seed |-> 1]

VARIABLES ops, phase
vars == <<ops, phase>>

Used == {ops[k][2] : k \in 1..Len(ops)}
(* second index of a space only after the first one *)
Allowed(x) == (x \in {2, 4, 6}) => (x - 1) \in Used

Init == ops = <<>> /\ phase = "build"

AddOp(kd, x) ==
  /\ phase = "build" /\ Len(ops) < MaxLen /\ Allowed(x)
  /\ ops' = Append(ops, <<kd, x>>)
  /\ UNCHANGED phase

Count(x) == Cardinality({k \in 1..Len(ops) : ops[k][2] = x})
Segments == {sg \in (1..Len(ops)) \X (1..Len(ops)) : sg[1] < sg[2]}
Disjoint(S) == \A s1, s2 \in S : s1 # s2 => (s1[2] < s2[1] \/ s2[2] < s1[1])

Emit(S, C) ==
  /\ phase = "build" /\ Len(ops) >= EmitFrom /\ Len(ops) >= 2
  /\ Cardinality(S) <= MaxNO /\ Disjoint(S)
  /\ {x \in Used : Count(x) >= 2} \subseteq C /\ C \subseteq Used
  /\ phase' = "emitted"
  /\ PrintT(<<"CASE", ops, SetToSortSeq(S, LAMBDA s1, s2 : s1[1] < s2[1]),
              SetToSortSeq(C, LAMBDA x, y : x < y)>>)
  /\ UNCHANGED ops

Next ==
  \/ \E kd \in {"F", "Fd"}, x \in Pos : AddOp(kd, x)
  \/ \E S \in SUBSET Segments, C \in SUBSET Pos : Emit(S, C)
Spec == Init /\ [][Next]_vars

-----------------------------------------------------------------------------
UsedSeq == SetToSortSeq(Used, LAMBDA x, y : x < y)
AllSig == Assignments(UsedSeq, Universe, Model)

Labelled(sig) == [k \in 1..Len(ops) |-> <<ops[k][1], sig[ops[k][2]], Universe[ops[k][2]].s>>]
Flat(sig) == [k \in 1..Len(ops) |-> <<ops[k][1], sig[ops[k][2]]>>]

WickIsVEV ==
  phase = "build" /\ Len(ops) >= 1 =>
    \A sig \in AllSig : WickRec(Labelled(sig), Model) = VEVFlat(Flat(sig), Model)

NOVanishes ==
  phase = "build" /\ Len(ops) >= 1 =>
    \A sig \in AllSig :
      LET n == NormalOrder(Flat(sig), Model) IN VEVFlat(n.ops, Model) = 0
=============================================================================
