SPECIFICATION Spec
CONSTANTS
  MaxLen = 2
  MaxNO = 1
  EmitFrom = 2
INVARIANT WickIsVEV
INVARIANT NOVanishes
CHECK_DEADLOCK FALSE
