------------------------------ MODULE Helpers ------------------------------
(***************************************************************************)
(* The small pure functions every derivation of adcgen rests on, specified *)
(* independently and enumerated: each reachable state of this module is    *)
(* one argument tuple of one function together with the result the         *)
(* specification prescribes ("HLP {json}").  harness/helpers_replay.py     *)
(* calls the real function for every printed case and compares.            *)
(*                                                                         *)
(*   gto   : func.gen_term_orders(order, length, min_order)                *)
(*           = all tuples of `length` integers >= min_order summing to     *)
(*             order (each exactly once)                                   *)
(*   stay  : IntermediateStates.expand_S_taylor(order, min_order)          *)
(*           = per exponent k = 1..order/min_order the Taylor coefficient  *)
(*             binom(-1/2, k) of (1+x)^(-1/2) with the compositions of     *)
(*             order into k parts >= min_order                             *)
(*   norm  : GroundState.expand_norm_factor(order, min_order)              *)
(*           = the same with binom(-1, k) = (-1)^k                         *)
(*   bord  : SecularMatrix.block_order / max_ptorder_spaces(n): the block  *)
(*           of excitation classes (cI, cJ) of the ADC(n) matrix is        *)
(*           expanded through order n - (cI-1) - (cJ-1), classes           *)
(*           1 .. n/2 + 1                                                  *)
(*   low   : indices.get_lowest_avail_indices(n, used, space)              *)
(*           = the first n names of  base, base+"1", base+"2", ... that    *)
(*             are not in `used`                                           *)
(*   split : indices.split_idx_string: a new index name starts at every    *)
(*           character that is not a digit                                 *)
(*   mti   : indices.minimize_tensor_indices(tuple, target names): target  *)
(*           indices stay, the other indices get the lowest names that are *)
(*           no target names, in the order of their first occurrence; the  *)
(*           returned transpositions map the input tuple onto the result   *)
(***************************************************************************)
EXTENDS Integers, Sequences, FiniteSets, TLC, Json, SequencesExt, FiniteSetsExt

CONSTANTS MaxOrder

VARIABLES case
vars == <<case>>

Sum(t) == FoldLeft(LAMBDA a, b : a + b, 0, t)
Compositions(order, L, mn) ==
  IF L = 0 THEN (IF order = 0 THEN {<<>>} ELSE {})
  ELSE {t \in [1..L -> mn..order] : Sum(t) = order}

(* rationals as <<num, den>>, den > 0, not reduced: binom(a, k) for a = -1/2 and a = -1 *)
RECURSIVE BinomHalf(_)
BinomHalf(k) ==     \* binom(-1/2, k) = binom(-1/2, k-1) * (-1/2 - (k-1)) / k = prev * (-(2k-1)) / (2k)
  IF k = 0 THEN <<1, 1>>
  ELSE LET p == BinomHalf(k - 1) IN <<p[1] * (-(2 * k - 1)), p[2] * 2 * k>>
BinomMinusOne(k) == IF k % 2 = 0 THEN <<1, 1>> ELSE <<-1, 1>>

Taylor(order, mn, coef(_)) ==
  IF order < mn THEN << [pref |-> <<1, 1>>, orders |-> {<<order>>}] >>
  ELSE [k \in 1..(order \div mn) |-> [pref |-> coef(k), orders |-> Compositions(order, k, mn)]]

(* ADC(n): classes 1..n/2+1; block (cI, cJ) through order n - (cI-1) - (cJ-1) *)
BlockOrders(n) ==
  LET cls == 1..((n \div 2) + 1) IN
  [b \in cls \X cls |-> n - (b[1] - 1) - (b[2] - 1)]
SpaceOrders(n) == [c \in 1..((n \div 2) + 1) |-> n - (c - 1)]

(* names <<letter position, number>>, number 0 = no suffix; NL letters *)
RECURSIVE NameSeq(_, _, _)
NameSeq(NL, gen, upto) ==
  IF gen > upto THEN <<>> ELSE [l \in 1..NL |-> <<l, gen>>] \o NameSeq(NL, gen + 1, upto)
Lowest(n, used, NL) ==
  LET all == NameSeq(NL, 0, Cardinality(used) + n)      \* more than enough generations
      free == SelectSeq(all, LAMBDA nm : nm \notin used)
  IN SubSeq(free, 1, n)

(* characters: 1 = letter "i", 2 = letter "a", 3 = digit "1", 4 = digit "0" *)
IsDigit(c) == c >= 3
RECURSIVE SplitRec(_, _, _, _)
SplitRec(s, k, cur, acc) ==
  IF k > Len(s) THEN acc
  ELSE LET cur2 == Append(cur, s[k]) IN
       IF k < Len(s) /\ IsDigit(s[k + 1]) THEN SplitRec(s, k + 1, cur2, acc)
       ELSE SplitRec(s, k + 1, <<>>, Append(acc, cur2))
(* independent statement: a name = a maximal run "one character followed by digits" *)
Starts(s) == {k \in 1..Len(s) : k = 1 \/ ~IsDigit(s[k])}
SplitSpec(s) ==
  LET st == SetToSortSeq(Starts(s), LAMBDA a, b : a < b) IN
  [j \in 1..Len(st) |-> SubSeq(s, st[j], IF j < Len(st) THEN st[j + 1] - 1 ELSE Len(s))]

(* minimize_tensor_indices(tensor indices, target names): an index is       *)
(* <<class, letter, number>> (class 1 = occ, 2 = virt).  Target indices stay; *)
(* the m-th distinct non-target index of a class (by first occurrence in the *)
(* tuple) becomes the m-th lowest name of the class that is no target name. *)
NLc == <<7, 8>>
RECURSIVE Distinct(_, _, _)
Distinct(t, k, acc) ==
  IF k > Len(t) THEN acc
  ELSE Distinct(t, k + 1, IF \E j \in 1..Len(acc) : acc[j] = t[k] THEN acc ELSE Append(acc, t[k]))
MinimizeTI(t, tgt) ==
  LET free(c) == SelectSeq(Distinct(t, 1, <<>>), LAMBDA x : x[1] = c /\ x \notin tgt)
      tnames(c) == {<<x[2], x[3]>> : x \in {y \in tgt : y[1] = c}}
      low(c) == Lowest(Len(free(c)), tnames(c), NLc[c])
      image(x) == IF x \in tgt THEN x
                  ELSE LET f == free(x[1])
                           r == CHOOSE j \in 1..Len(f) : f[j] = x
                       IN <<x[1], low(x[1])[r][1], low(x[1])[r][2]>>
  IN [k \in 1..Len(t) |-> image(t[k])]
MtiUniverse == {<<1, 1, 0>>, <<1, 2, 0>>, <<1, 3, 0>>, <<1, 1, 1>>, <<2, 1, 0>>, <<2, 2, 0>>}
MtiTargets == {{}, {<<1, 1, 0>>}, {<<1, 2, 0>>}, {<<1, 1, 0>>, <<2, 1, 0>>}, {<<1, 2, 0>>, <<1, 3, 0>>}}

UsedUniverse == {<<1, 0>>, <<2, 0>>, <<7, 0>>, <<1, 1>>, <<2, 1>>, <<1, 2>>}

Cases ==
  {[f |-> "gto", order |-> o, len |-> l, mn |-> m] : o \in 0..MaxOrder, l \in 0..4, m \in 0..2}
  \cup {[f |-> "stay", order |-> o, mn |-> m] : o \in 0..MaxOrder, m \in 1..3}
  \cup {[f |-> "norm", order |-> o, mn |-> m] : o \in 0..MaxOrder, m \in 1..3}
  \cup {[f |-> "bord", n |-> n] : n \in 0..MaxOrder}
  \cup {[f |-> "low", n |-> n, used |-> u, nl |-> 7] : n \in 1..3, u \in SUBSET UsedUniverse}
  \cup {[f |-> "split", s |-> s] : s \in UNION {[1..L -> 1..4] : L \in 1..5}}
  \cup {[f |-> "mti", t |-> t, tgt |-> g] : t \in UNION {[1..L -> MtiUniverse] : L \in 1..3}, g \in MtiTargets}

Result(c) ==
  CASE c.f = "gto" -> [sets |-> Compositions(c.order, c.len, c.mn)]
    [] c.f = "stay" -> [series |-> Taylor(c.order, c.mn, BinomHalf)]
    [] c.f = "norm" -> [series |-> Taylor(c.order, c.mn, BinomMinusOne)]
    [] c.f = "bord" -> [blocks |-> [b \in DOMAIN BlockOrders(c.n) |-> <<b[1], b[2], BlockOrders(c.n)[b]>>],
                        spaces |-> SpaceOrders(c.n)]
    [] c.f = "low" -> [names |-> Lowest(c.n, c.used, c.nl)]
    [] c.f = "split" -> [parts |-> SplitSpec(c.s)]
    [] c.f = "mti" -> [names |-> MinimizeTI(c.t, c.tgt)]

Init == case \in Cases
Next == UNCHANGED case
Spec == Init /\ [][Next]_vars

(* design-level properties of the specification itself *)
Emit == PrintT("HLP " \o ToJson([c |-> case, r |-> Result(case)]))
Sane ==
  /\ Emit
  /\ (case.f = "split" => SplitRec(case.s, 1, <<>>, <<>>) = SplitSpec(case.s))       \* the two statements agree
  /\ (case.f = "gto" => \A t \in Compositions(case.order, case.len, case.mn) :
                           Sum(t) = case.order /\ \A k \in 1..Len(t) : t[k] >= case.mn)
  /\ (case.f = "low" => LET r == Lowest(case.n, case.used, case.nl) IN
                           /\ Len(r) = case.n
                           /\ \A k \in 1..Len(r) : r[k] \notin case.used
                           /\ \A j, k \in 1..Len(r) : j < k => r[j] # r[k])
  /\ (case.f = "bord" => \A b \in DOMAIN BlockOrders(case.n) :
                           BlockOrders(case.n)[b] = BlockOrders(case.n)[<<b[2], b[1]>>]
                           /\ BlockOrders(case.n)[b] >= 0)
=============================================================================
