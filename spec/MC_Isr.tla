------------------------------- MODULE MC_Isr -------------------------------
(* Design-level check of the explicit ISR construction: orthonormal states, *)
(* symmetric secular matrix, orthogonality to the ground state.            *)
EXTENDS Isr
CONSTANTS Cases, Order
VARIABLES cfg, st
BaseModel(no, nv, seed) ==
  [noa |-> no, nob |-> 0, nva |-> nv, nvb |-> 0, seed |-> seed,
   restricted |-> FALSE, spincons |-> FALSE, scn |-> <<>>, fock |-> "diag", eri |-> "gen",
   re |-> 2, rD |-> 0, rf |-> 3, rv |-> 0, rV |-> 1, rU |-> 0, umat |-> <<>>,
   bkn |-> <<1, 0, 1>>, tabs |-> << <<>>, <<>>, <<>> >>]
CaseSet == CASE Cases = 1 -> {<<"pp", 2, 2, 2>>, <<"pp", 3, 2, 2>>, <<"ip", 3, 2, 2>>, <<"ea", 2, 3, 2>>}
             [] Cases = 2 -> {<<"pp", 3, 3, 2>>, <<"ip", 3, 3, 2>>, <<"ea", 3, 3, 2>>, <<"dip", 3, 2, 1>>, <<"dea", 2, 3, 1>>}
             [] OTHER -> {<<"pp", 2, 2, 1>>}
Init == cfg \in CaseSet \X {1, 2} /\ st = "todo"
Next == st = "todo" /\ st' = "done" /\ UNCHANGED cfg
Spec == Init /\ [][Next]_<<cfg, st>>
Sane == st = "done" =>
          IsrSane(BaseModel(cfg[1][2], cfg[1][3], cfg[2]), cfg[1][1], Order, cfg[1][4])
=============================================================================
