SPECIFICATION Spec
CONSTANTS
  NIdx = 4
  MaxU = 2
  ExplicitTargets = TRUE
INVARIANT ValuePreserved
INVARIANT OldBehaviourDeviates
CHECK_DEADLOCK FALSE
