------------------------------ MODULE Registry ------------------------------
(***************************************************************************)
(* The index registry of adcgen (adcgen/indices.py, class Indices) as a    *)
(* state machine - the process-global state behind property C19's clause   *)
(* "generic names are handed out at most once per process" and behind the  *)
(* identity of indices (C06/C08: an index is identified by name, space and *)
(* spin).                                                                  *)
(*                                                                         *)
(* State per class c = (space, spin):                                      *)
(*   symbols[c] : names for which an Index object exists                   *)
(*   pool[c]    : generated generic names not handed out yet (a list; the  *)
(*                code takes them from the front)                          *)
(*   counter[c] : number suffix of the next generation of generic names    *)
(* Actions (one per public call, transcribed statement by statement):      *)
(*   GetExplicit(c, nm) : Indices().get_indices(name, spin)                *)
(*   GetGeneric(c, n)   : Indices().get_generic_indices(space_spin = n)    *)
(* A name is <<letter position, number>>; number 0 = no suffix ("i").      *)
(*                                                                         *)
(* The build phase enumerates every history over the menu up to MaxDepth   *)
(* and prints it together with what the specification says each call       *)
(* returns and the scalar state after it ("REG" lines); each history is    *)
(* replayed into the real class in a fresh registry and compared step by   *)
(* step (harness/registry_replay.py).  Invariants = the property.          *)
(***************************************************************************)
EXTENDS Integers, Sequences, FiniteSets, TLC, SequencesExt, Json

CONSTANTS MaxDepth, MenuSize

NLetters == <<7, 8>>         \* class 1: occ, no spin "ijklmno"; class 2: virt, alpha "abcdefgh"
InitCounter == 3
Classes == {1, 2}

ExplicitNames ==
  IF MenuSize = 1 THEN {<<1, 0>>, <<1, 3>>, <<7, 3>>, <<1, 4>>}
  ELSE {<<1, 0>>, <<1, 3>>, <<2, 3>>, <<7, 3>>, <<1, 4>>, <<7, 4>>, <<3, 5>>}
GenericSizes == IF MenuSize = 1 THEN {1, 7, 9} ELSE {1, 2, 7, 8, 9}

VARIABLES symbols, pool, counter, log
vars == <<symbols, pool, counter, log>>

Init == /\ symbols = [c \in Classes |-> {}]
        /\ pool = [c \in Classes |-> <<>>]
        /\ counter = [c \in Classes |-> InitCounter]
        /\ log = <<>>

(* list.remove(x): removes the first occurrence *)
DropFirst(s, x) ==
  IF \E i \in 1..Len(s) : s[i] = x
  THEN LET i == CHOOSE i \in 1..Len(s) : s[i] = x /\ \A j \in 1..(i - 1) : s[j] # x
       IN SubSeq(s, 1, i - 1) \o SubSeq(s, i + 1, Len(s))
  ELSE s

(* _gen_generic_idx: the names of generation cnt that are not in use *)
Generation(c, cnt, syms) ==
  SelectSeq([l \in 1..NLetters[c] |-> <<l, cnt>>], LAMBDA nm : nm \notin syms)

(* while n > len(pool): _gen_generic_idx() *)
RECURSIVE Fill(_, _, _, _)
Fill(c, n, pl, cnt) ==
  IF n > Len(pl) THEN Fill(c, n, pl \o Generation(c, cnt, symbols[c]), cnt + 1)
  ELSE <<pl, cnt>>

(* get_indices(names): known names are returned from the cache; new ones are *)
(* created, cached and removed from the pool of generic names               *)
RECURSIVE Take(_, _, _, _)
Take(names, k, syms, pl) ==
  IF k > Len(names) THEN <<syms, pl>>
  ELSE IF names[k] \in syms THEN Take(names, k + 1, syms, pl)
  ELSE Take(names, k + 1, syms \cup {names[k]}, DropFirst(pl, names[k]))

Entry(op, c, ret, syms, pl, cnt) ==
  [op |-> op, ret |-> ret, cnt |-> cnt, npool |-> Len(pl), nsym |-> Cardinality(syms),
   head |-> IF pl = <<>> THEN <<0, 0>> ELSE pl[1]]

GetExplicit(c, nm) ==
  LET t == Take(<<nm>>, 1, symbols[c], pool[c]) IN
  /\ symbols' = [symbols EXCEPT ![c] = t[1]]
  /\ pool' = [pool EXCEPT ![c] = t[2]]
  /\ UNCHANGED counter
  /\ log' = Append(log, Entry(<<"x", c, nm>>, c, <<nm>>, t[1], t[2], counter[c]))

GetGeneric(c, n) ==
  LET f == Fill(c, n, pool[c], counter[c])
      names == SubSeq(f[1], 1, n)
      t == Take(names, 1, symbols[c], f[1])
  IN /\ symbols' = [symbols EXCEPT ![c] = t[1]]
     /\ pool' = [pool EXCEPT ![c] = t[2]]
     /\ counter' = [counter EXCEPT ![c] = f[2]]
     /\ log' = Append(log, Entry(<<"g", c, n>>, c, names, t[1], t[2], f[2]))

Next ==
  /\ Len(log) < MaxDepth
  /\ \/ \E c \in Classes, nm \in ExplicitNames : nm[1] <= NLetters[c] /\ GetExplicit(c, nm)
     \/ \E c \in Classes, n \in GenericSizes : GetGeneric(c, n)
  /\ (Len(log') = MaxDepth => PrintT("REG " \o ToJson([log |-> log', pool |-> pool'])))

Spec == Init /\ [][Next]_vars

-----------------------------------------------------------------------------
SeqSet(s) == {s[i] : i \in 1..Len(s)}

(* names waiting in the pool are unused, distinct, and of a generation the  *)
(* counter has passed                                                       *)
PoolUnused == \A c \in Classes : SeqSet(pool[c]) \cap symbols[c] = {}
PoolNoDup == \A c \in Classes : Cardinality(SeqSet(pool[c])) = Len(pool[c])
PoolGenerations == \A c \in Classes : \A nm \in SeqSet(pool[c]) :
                      nm[2] >= InitCounter /\ nm[2] < counter[c]

(* THE property: a generic request returns n pairwise distinct names that  *)
(* were never handed out before - neither by a generic nor by an explicit  *)
(* request                                                                  *)
Fresh == [][LET e == log'[Len(log')] IN
            e.op[1] = "g" =>
              /\ Len(e.ret) = e.op[3]
              /\ Cardinality(SeqSet(e.ret)) = e.op[3]
              /\ SeqSet(e.ret) \cap symbols[e.op[2]] = {}
              /\ SeqSet(e.ret) \subseteq symbols'[e.op[2]]]_vars

(* an index, once created, exists for the rest of the process; classes are *)
(* independent                                                              *)
SymbolsGrow == [][\A c \in Classes : symbols[c] \subseteq symbols'[c]]_vars
CountersMonotone == [][\A c \in Classes : counter'[c] >= counter[c]]_vars
Independent == [][LET e == log'[Len(log')] IN
                  \A c \in Classes \ {e.op[2]} :
                     symbols'[c] = symbols[c] /\ pool'[c] = pool[c] /\ counter'[c] = counter[c]]_vars
=============================================================================
