----------------------------- MODULE PipelineGen -----------------------------
(***************************************************************************)
(* Generation side of the system-level specification: every sequence of    *)
(* public transformations that the rules of PipelineRules.tla allow, up to *)
(* MaxLen steps, from the initial assumptions of a freshly built           *)
(* expression (not real, explicit orbital-energy denominators, spin        *)
(* orbitals, general Fock matrix).  Each maximal chain is printed          *)
(* ("CHAIN"); the harness executes sampled chains on generated expressions *)
(* through the real API and the recorded workflow is validated step by     *)
(* step against Pipeline.tla (state continuity + contract of every step).  *)
(*                                                                         *)
(* Design-level properties of the rules themselves:                        *)
(*   DenominatorForms : symbolic and explicit denominators alternate - a   *)
(*                      simplify step only ever sees the symbolic form     *)
(*   RealIsStable     : once real, always real                             *)
(*   NoDisabledStep   : every generated step is enabled where it is taken  *)
(***************************************************************************)
EXTENDS PipelineRules, Integers, Sequences, TLC

CONSTANTS MaxLen

Menu == {"expand", "make_real", "substitute_contracted", "substitute_with_generic",
         "simplify", "evaluate_deltas_expr", "diagonalize_fock",
         "use_symbolic_denominators", "use_explicit_denominators"}

VARIABLES asm, chain
vars == <<asm, chain>>

Asm0 == [real |-> FALSE, explicit_denominators |-> TRUE, spin |-> FALSE, fock_diag |-> FALSE]

Init == asm = Asm0 /\ chain = <<>>

(* beyond the documented conditions the generator avoids steps that are    *)
(* identities by construction (a second make_real, diagonalising twice,    *)
(* the same renaming twice in a row)                                       *)
Useful(op) ==
  /\ (op = "make_real" => ~asm.real)
  /\ (op = "diagonalize_fock" => ~asm.fock_diag)
  /\ (op = "use_explicit_denominators" => ~asm.explicit_denominators)
  /\ (chain # <<>> => chain[Len(chain)] # op)

Do(op) ==
  /\ Len(chain) < MaxLen
  /\ Enabled(op, asm)
  /\ Useful(op)
  /\ asm' = NextAsm(op, asm)
  /\ chain' = Append(chain, op)
  /\ (Len(chain') = MaxLen => PrintT(<<"CHAIN", chain'>>))

Next == \E op \in Menu : Do(op)
Spec == Init /\ [][Next]_vars

DenominatorForms == [][chain' # chain /\ chain'[Len(chain')] = "simplify" => ~asm.explicit_denominators]_vars
RealIsStable == [][asm.real => asm'.real]_vars
NoDisabledStep == [][chain' # chain => Enabled(chain'[Len(chain')], asm)]_vars
=============================================================================
