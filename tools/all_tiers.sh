#!/bin/sh
# all_tiers.sh <tier> [ids...]: run the checks one after the other, one summary line each
T="${1:-quick}"; shift
IDS="${*:-C01 C02 C03 C04 C05 C06 C07 C08 C09 C10 C11 C12 C13 C14 C15 C16 C17 C18 C19 C20}"
cd "$(dirname "$0")/.."
for p in $IDS; do
  s=$(date +%s)
  ./check $p --tier $T > .work_$p.$T.log 2>&1; rc=$?
  e=$(date +%s)
  echo "tier=$T $p rc=$rc $((e-s))s $(grep -c VIOLATION .work_$p.$T.log) $(tail -1 .work_$p.$T.log | cut -c1-160)"
  grep -A3 -m2 "^  " .work_$p.$T.log | cut -c1-300
done
echo ALLDONE
