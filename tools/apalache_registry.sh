#!/bin/sh
# Inductive invariant of the index registry with Apalache (non-gating design-level check):
# Init => IndInvFresh, IndInvFresh /\ Next => IndInvFresh' for arbitrary counters / sets of <= 6 names.
cd "$(dirname "$0")/../spec/apalache" || exit 2
OUT=$(mktemp -d)
trap 'rm -rf "$OUT"' EXIT
timeout 600 apalache-mc check --init=Init --inv=IndInvFresh --length=0 --out-dir="$OUT" RegistryInd.tla > "$OUT/a.log" 2>&1 || { tail -5 "$OUT/a.log"; echo "APALACHE base case FAILED"; exit 1; }
timeout 900 apalache-mc check --init=IndInit --inv=IndInvFresh --length=1 --out-dir="$OUT" RegistryInd.tla > "$OUT/b.log" 2>&1 || { tail -5 "$OUT/b.log"; echo "APALACHE inductive step FAILED"; exit 1; }
echo "APALACHE registry: IndInvFresh is inductive (base case and step: NoError)"
