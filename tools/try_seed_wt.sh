#!/bin/sh
# try_seed_wt.sh <seed dir name> <property> [tier]: run the check against a scratch worktree
# of /repo's HEAD with the seeded change applied (VERIF_REPO), so that several seeds of
# different properties can be tried at the same time and /repo itself stays untouched.
S="$1"; P="$2"; T="${3:-quick}"
WT=/tmp/tryseed/$S
rm -rf "$WT"; git -C /repo worktree prune; mkdir -p /tmp/tryseed
git -C /repo worktree add --detach "$WT" HEAD >/dev/null 2>&1 || exit 2
git -C "$WT" apply /verif/seeded/$S/patch.diff || { git -C /repo worktree remove --force "$WT"; echo "seed=$S patch does not apply"; exit 2; }
cp /verif/evidence/$P.json /tmp/tryseed/$S.evid.orig 2>/dev/null
cd /verif && VERIF_REPO="$WT" ./check $P --tier $T > /tmp/try_${S}_${P}.log 2>&1; RC=$?
cp evidence/$P.json /tmp/evid_${S}_${P}.json 2>/dev/null
cp /tmp/tryseed/$S.evid.orig /verif/evidence/$P.json 2>/dev/null
git -C /repo worktree remove --force "$WT"
echo "seed=$S property=$P tier=$T rc=$RC"; grep -m3 "VIOLATION\|machinery" /tmp/try_${S}_${P}.log; grep -A3 -m1 "^  " /tmp/try_${S}_${P}.log | head -5
exit 0
