#!/bin/sh
# confirm_seed.sh <ID> [<worktree>] : confirm a seeded change produced in a scratch worktree
# (demo fails with the change / passes without; unchanged test suite passes with the change)
# and store it under /verif/seeded/<ID>/.
ID="$1"; WT="${2:-/tmp/wt/$ID}"; NAME="${3:-$ID}"
OUT=/verif/seeded/$NAME
mkdir -p "$OUT"
cd "$WT" || exit 2
git diff -- adcgen > "$OUT/patch.diff"
cp demo.py "$OUT/demo.py"
[ -f NOTES.md ] && cp NOTES.md "$OUT/NOTES.md"
export PYTHONHASHSEED=0
PYTHONPATH="$WT" timeout 600 /venv/bin/python demo.py > "$OUT/demo_with.log" 2>&1; RC_WITH=$?
git apply -R "$OUT/patch.diff"
PYTHONPATH="$WT" timeout 600 /venv/bin/python demo.py > "$OUT/demo_without.log" 2>&1; RC_WITHOUT=$?
git apply "$OUT/patch.diff"
PYTHONPATH="$WT" timeout 1500 /venv/bin/python -m pytest -q -p no:cacheprovider tests > "$OUT/pytest_with.log" 2>&1; RC_TESTS=$?
TAIL=$(tail -1 "$OUT/pytest_with.log")
cat > "$OUT/confirm.json" <<EOJ
{"id": "$NAME", "demo_rc_with_change": $RC_WITH, "demo_rc_without_change": $RC_WITHOUT,
 "pytest_rc_with_change": $RC_TESTS, "pytest_tail": "$TAIL"}
EOJ
cat "$OUT/confirm.json"
