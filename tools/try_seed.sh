#!/bin/sh
# try_seed.sh <seed dir name> <property> [tier]: apply a seeded change to /repo, run the check, undo.
S="$1"; P="$2"; T="${3:-quick}"
cd /repo && git apply /verif/seeded/$S/patch.diff || exit 2
cd /verif && ./check $P --tier $T > /tmp/try_${S}_${P}.log 2>&1; RC=$?
git -C /repo checkout -- . 
echo "seed=$S property=$P tier=$T rc=$RC"; grep -m3 "VIOLATION\|machinery" /tmp/try_${S}_${P}.log; grep -A3 -m1 "^  " /tmp/try_${S}_${P}.log | head -5
cp evidence/$P.json /tmp/evid_${S}_${P}.json 2>/dev/null
git -C /verif checkout -- evidence/$P.json 2>/dev/null
exit 0
