#!/usr/bin/env python3
"""Writes /verif/MANIFEST.json from the table below (single source)."""
import json
import os

VERIF = os.path.dirname(os.path.dirname(os.path.abspath(__file__)))

TB = ("TLC 1.8 and its evaluator; the CommunityModules Json/IOUtils reader; "
      "the syntactic sympy->AST projection harness/adapter.py (no arithmetic "
      "beyond splitting rationals; corruption self-tests show the binding); "
      "values are compared in F_10007 on orbital spaces up to 3 occupied + 3 "
      "virtual spin orbitals (Schwartz-Zippel: a difference can be missed only "
      "if it vanishes on the small space or with probability ~degree/P per "
      "evaluation point)")

CHECKS = {
    "C07": dict(
        text="Every simplify call on seeded grammar sums is recorded as a trace "
             "event and TLC decides the contract of spec/Contracts.tla "
             "(SimplifyContract): Val(pre) = Val(post) under the denotational "
             "semantics spec/ExprSem.tla for every target assignment of the "
             "model space and 2 tensor models, same targets and assumptions, no "
             "more terms, and planted alpha-variants (witness re-verified in "
             "TLA+) end in one term per class.",
        ref="5 C07",
        technique="TLA+ trace validation (TLC) of recorded simplify calls against "
                  "the Val-preservation contract; seeded grammar with planted "
                  "alpha-variants"),
}

NOT_YET = {}


def main():
    props = [json.loads(l) for l in open(os.path.join(VERIF, "properties.jsonl"))]
    checks = []
    na = []
    for p in props:
        pid = p["id"]
        if pid in CHECKS:
            c = CHECKS[pid]
            checks.append({
                "property_id": pid,
                "quick_cmd": f"./check {pid} --tier quick",
                "thorough_cmd": f"./check {pid} --tier thorough",
                "evidence_file": f"/verif/evidence/{pid}.json",
                "replay_cmd_template": f"./check {pid} --replay {{path}}",
                "engine": "tlc-judge",
                "level_claimed": {"category": c.get("category", "model_checking"),
                                  "text": c["text"],
                                  "design_ref": "DESIGN.md section " + c["ref"]},
                "level_note": c.get("note", TB),
                "technique": c["technique"],
            })
        else:
            na.append({"property_id": pid,
                       "reason": NOT_YET.get(pid, "check not built yet in this "
                                             "round (planned: DESIGN.md section 5)")})
    man = {
        "version": 1,
        "setup_cmd": "./setup.sh",
        "hooks": {"guard": "ADCGEN_VERIF", "enable": "no in-source hooks: the harness "
                  "wraps public functions at run time (env ADCGEN_VERIF=1 is set by "
                  "./check but nothing in /repo reads it)",
                  "baseline_off_cmd": "cd /repo && /venv/bin/python -m pytest -ra -q "
                  "-p no:cacheprovider --timeout=900 --continue-on-collection-errors",
                  "source_commits": [], "add_only": True},
        "engines": [{"name": "tlc-judge", "path": "/verif/spec",
                     "serves_properties": sorted(CHECKS),
                     "kind_free_text": "explicit TLA+ specification (spec/*.tla) checked "
                     "with TLC: design-level model checking of the state machines and "
                     "trace validation of recorded API calls; Python harness only drives "
                     "the code and projects sympy objects to a syntactic AST"}],
        "checks": checks,
        "not_applicable": na,
        "notes": "See DESIGN.md. VERIF_SEED seeds grammar and tensor models.",
    }
    with open(os.path.join(VERIF, "MANIFEST.json"), "w") as fh:
        json.dump(man, fh, indent=1)
    print("checks:", [c["property_id"] for c in checks], "n/a:", len(na))


if __name__ == "__main__":
    main()
