#!/usr/bin/env python3
"""Writes /verif/MANIFEST.json from the table below (single source)."""
import json
import os

VERIF = os.path.dirname(os.path.dirname(os.path.abspath(__file__)))

TB = ("TLC 1.8 and its evaluator; the CommunityModules Json/IOUtils reader; "
      "the syntactic sympy->AST projection harness/adapter.py (no arithmetic "
      "beyond splitting rationals; corruption self-tests show the binding); "
      "values are compared in F_10007 on orbital spaces up to 3 occupied + 3 "
      "virtual spin orbitals (Schwartz-Zippel: a difference can be missed only "
      "if it vanishes on the small space or with probability ~degree/P per "
      "evaluation point)")

CHECKS = {
    "C07": dict(
        text="Every simplify call on seeded grammar sums is recorded as a trace "
             "event and TLC decides the contract of spec/Contracts.tla "
             "(SimplifyContract): Val(pre) = Val(post) under the denotational "
             "semantics spec/ExprSem.tla for every target assignment of the "
             "model space and 2 tensor models, same targets and assumptions, no "
             "more terms, and planted alpha-variants (witness re-verified in "
             "TLA+) end in one term per class.",
        ref="5 C07",
        technique="TLA+ trace validation (TLC) of recorded simplify calls against "
                  "the Val-preservation contract; seeded grammar with planted "
                  "alpha-variants"),
}

CHECKS["C09"] = dict(
    text="spec/Deltas.tla is a state machine whose build phase enumerates every "
         "input (<= N deltas on a universe of occ/virt/general/spin-labelled "
         "indices x coefficient index sets x Einstein/explicit targets meeting "
         "the precondition) and whose eval phase transcribes evaluate_deltas; "
         "TLC checks ValuePreserved/NoInfoLost/TargetsKept on it exhaustively. "
         "Every generated input is replayed through the real evaluate_deltas and "
         "the recorded call is judged by TLC against DeltaContract (Val on a "
         "2+2 spatial x spin model for all target assignments, information "
         "order, targets kept); plus seeded grammar terms with deltas.",
    ref="5 C09",
    technique="TLC model checking of a TLA+ transcription + spec-generated "
              "inputs replayed into the code + TLA+ trace validation of the "
              "recorded calls")
CHECKS["C20"] = dict(
    text="spec/Unitary.tla enumerates multisets of U factors x remainder index "
         "sets x target sets, transcribes the pair resolution and is model "
         "checked (value preserved under an orthogonal matrix over F_P). Every "
         "generated input goes through the real simplify_unitary with "
         "evaluate_deltas off/on; TLC judges UnitaryContract: orthogonality "
         "certificate of the proposed matrix, Val equal on all target "
         "assignments for 2 orthogonal matrices, untouched when no pair is "
         "resolvable; plus seeded chains with antisymmetric/symmetric U in "
         "occ/virt/general spaces.",
    ref="5 C20",
    technique="TLC model checking of a TLA+ transcription + spec-generated "
              "inputs replayed into the code + TLA+ trace validation under an "
              "orthogonal-matrix model")

NOT_YET = {}


def main():
    props = [json.loads(l) for l in open(os.path.join(VERIF, "properties.jsonl"))]
    checks = []
    na = []
    for p in props:
        pid = p["id"]
        if pid in CHECKS:
            c = CHECKS[pid]
            checks.append({
                "property_id": pid,
                "quick_cmd": f"./check {pid} --tier quick",
                "thorough_cmd": f"./check {pid} --tier thorough",
                "evidence_file": f"/verif/evidence/{pid}.json",
                "replay_cmd_template": f"./check {pid} --replay {{path}}",
                "engine": "tlc-judge",
                "level_claimed": {"category": c.get("category", "model_checking"),
                                  "text": c["text"],
                                  "design_ref": "DESIGN.md section " + c["ref"]},
                "level_note": c.get("note", TB),
                "technique": c["technique"],
            })
        else:
            na.append({"property_id": pid,
                       "reason": NOT_YET.get(pid, "check not built yet in this "
                                             "round (planned: DESIGN.md section 5)")})
    man = {
        "version": 1,
        "setup_cmd": "./setup.sh",
        "hooks": {"guard": "ADCGEN_VERIF", "enable": "no in-source hooks: the harness "
                  "wraps public functions at run time (env ADCGEN_VERIF=1 is set by "
                  "./check but nothing in /repo reads it)",
                  "baseline_off_cmd": "cd /repo && /venv/bin/python -m pytest -ra -q "
                  "-p no:cacheprovider --timeout=900 --continue-on-collection-errors",
                  "source_commits": [], "add_only": True},
        "engines": [{"name": "tlc-judge", "path": "/verif/spec",
                     "serves_properties": sorted(CHECKS),
                     "kind_free_text": "explicit TLA+ specification (spec/*.tla) checked "
                     "with TLC: design-level model checking of the state machines and "
                     "trace validation of recorded API calls; Python harness only drives "
                     "the code and projects sympy objects to a syntactic AST"}],
        "checks": checks,
        "not_applicable": na,
        "notes": "See DESIGN.md. VERIF_SEED seeds grammar and tensor models.",
    }
    with open(os.path.join(VERIF, "MANIFEST.json"), "w") as fh:
        json.dump(man, fh, indent=1)
    print("checks:", [c["property_id"] for c in checks], "n/a:", len(na))


if __name__ == "__main__":
    main()
