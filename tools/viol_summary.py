import json,glob,collections,sys
pid=sys.argv[1]
c=collections.Counter(); ex={}
for f in glob.glob(f'/verif/.work/replay/{pid}_*.json'):
    b=json.load(open(f))
    if 'event' in b:
        k=(b['event'].get('key'), tuple(sorted({x['clause'] for x in b['fails']})))
        c[k]+=1; ex.setdefault(k,[]).append((b['event'].get('what'), b['event'].get('text',{}).get('post'), b['fails'][0]['detail']))
    else:
        k=(b.get('key'),'direct'); c[k]+=1; ex.setdefault(k,[]).append((b.get('what'),))
for k,n in c.items():
    print(n,k)
    for e in ex[k][:int(sys.argv[2]) if len(sys.argv)>2 else 2]: print("    ",e)
