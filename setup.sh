#!/bin/sh
# Offline setup: verifies the tools are present, parses the spec, byte-compiles the harness.
set -e
cd "$(dirname "$0")"
command -v java >/dev/null
test -f /opt/veriftools/tla/tla2tools.jar
mkdir -p .work evidence
/venv/bin/python -m compileall -q harness tools
for m in TraceJudge Deltas Unitary Wick MC_Rspt MC_Isr History; do
  (cd spec && java -cp /opt/veriftools/tla/tla2tools.jar:/opt/veriftools/tla/CommunityModules-deps.jar tla2sany.SANY $m.tla >/dev/null)
done
PYTHONPATH=/repo /venv/bin/python -c "import adcgen, sympy; print('adcgen', adcgen.__version__, 'sympy', sympy.__version__)"
echo setup ok
