"""Integer linear algebra mod P used to PROPOSE certificates (orthogonal
matrices, solutions of linear systems).  The TLA+ spec verifies every
certificate before using it, so nothing here is trusted."""
import random

P = 10007


def inv(a):
    return pow(a % P, P - 2, P)


def matinv(M):
    n = len(M)
    A = [row[:] + [1 if i == j else 0 for j in range(n)]
         for i, row in enumerate(M)]
    for c in range(n):
        piv = next(r for r in range(c, n) if A[r][c] % P)
        A[c], A[piv] = A[piv], A[c]
        iv = inv(A[c][c])
        A[c] = [x * iv % P for x in A[c]]
        for r in range(n):
            if r != c and A[r][c] % P:
                f = A[r][c]
                A[r] = [(x - f * y) % P for x, y in zip(A[r], A[c])]
    return [row[n:] for row in A]


def cayley(n, seed):
    """Orthogonal n x n matrix over F_P: (1 - S)(1 + S)^-1, S skew."""
    r = random.Random(seed)
    while True:
        S = [[0] * n for _ in range(n)]
        for i in range(n):
            for j in range(i + 1, n):
                S[i][j] = r.randrange(1, P)
                S[j][i] = (-S[i][j]) % P
        IpS = [[(S[i][j] + (i == j)) % P for j in range(n)] for i in range(n)]
        ImS = [[((i == j) - S[i][j]) % P for j in range(n)] for i in range(n)]
        try:
            iv = matinv(IpS)
        except StopIteration:
            continue
        return [[sum(ImS[i][k] * iv[k][j] for k in range(n)) % P
                 for j in range(n)] for i in range(n)]


def block_orthogonal(no, nv, seed, general=False):
    """Matrix over no+nv orbitals, orthogonal on the occupied and on the
    virtual block (general=False) or on the whole space (general=True)."""
    n = no + nv
    if general:
        return cayley(n, seed)
    M = [[0] * n for _ in range(n)]
    A = cayley(no, seed) if no > 1 else [[1]] * no
    B = cayley(nv, seed + 101) if nv > 1 else [[1]] * nv
    for i in range(no):
        for j in range(no):
            M[i][j] = A[i][j]
    for i in range(nv):
        for j in range(nv):
            M[no + i][no + j] = B[i][j]
    return M
