"""
Parser for the program text emitted by adcgen.generate_code (einsum and
libtensor syntax) -> program AST for spec/Codegen.tla.  Purely syntactic: it
never evaluates anything.

program = [block];  block = {perms: [{f, ps: [[id, id]]}], lines: [line]}
line    = {num, den, s2, s3, node}
node    = {t: "ten" | "ein" | "mul" | "con" | "dot" | "sym" | "one",
           o: tensor record (kind, nid, nu, nl, block) or dummy,
           lab: [idx ids]            (libtensor tensor labels),
           subs: [[idx ids]], out: [idx ids], args: [node]}
"""
import re
from fractions import Fraction

from adcgen.indices import split_idx_string


class CodeParseError(Exception):
    pass


DUMMY_O = {"k": "-", "nid": 0, "nu": 0, "nl": 0, "block": ""}


def node(t, o=None, lab=(), subs=(), out=(), args=()):
    return {"t": t, "o": o or dict(DUMMY_O), "lab": list(lab),
            "subs": [list(s) for s in subs], "out": list(out),
            "args": list(args)}


def split_top(s, sep):
    """split s at top-level occurrences of sep (outside () and quotes)"""
    out, depth, cur, i, q = [], 0, [], 0, False
    while i < len(s):
        c = s[i]
        if c == '"':
            q = not q
        if not q:
            if c == "(":
                depth += 1
            elif c == ")":
                depth -= 1
            elif depth == 0 and s.startswith(sep, i):
                out.append("".join(cur))
                cur = []
                i += len(sep)
                continue
        cur.append(c)
        i += 1
    out.append("".join(cur))
    return [x.strip() for x in out]


class Parser:
    def __init__(self, names, symbols, idx_of_name, backend):
        """names: code name -> tensor record; symbols: name -> nid;
        idx_of_name: index name -> idx id (of the current term)"""
        self.names = names
        self.symbols = symbols
        self.idx_of_name = idx_of_name
        self.backend = backend

    def ids(self, s):
        if not s:
            return []
        out = []
        for n in split_idx_string(s):
            if n not in self.idx_of_name:
                raise CodeParseError(f"unknown index name {n!r}")
            out.append(self.idx_of_name[n])
        return out

    def tensor(self, name):
        if name not in self.names:
            raise CodeParseError(f"unknown tensor name {name!r}")
        return dict(self.names[name])

    def factor(self, f, pref):
        """One component of a product; numbers are folded into pref
        = [Fraction, s2, s3]; returns a node or None."""
        f = f.strip()
        if re.fullmatch(r"\d+(\.\d+)?", f):
            pref[0] *= Fraction(f)
            return None
        m = re.fullmatch(r"(\d+(?:\.\d+)?) / (\d+(?:\.\d+)?)", f)
        if m:
            pref[0] *= Fraction(m.group(1)) / Fraction(m.group(2))
            return None
        m = re.fullmatch(r"sqrt\((\d+)\)|constants::sq(\d+)", f)
        if m:
            n = int(m.group(1) or m.group(2))
            for p_, pos in ((2, 1), (3, 2)):
                while n % p_ == 0:
                    n //= p_
                    pref[pos] += 1
            if n != 1:
                raise CodeParseError(f"sqrt of {f}")
            return None
        if f in self.symbols:
            return node("sym", o={"k": "Y", "nid": self.symbols[f], "nu": 0,
                                  "nl": 0, "block": ""})
        if f.startswith("einsum("):
            inner = f[len("einsum("):-1]
            parts = split_top(inner, ",")
            spec = parts[0].strip().strip('"')
            lhs, rhs = spec.split("->")
            subs = [self.ids(x) for x in lhs.split(",")]
            args = [self.expr(a) for a in parts[1:]]
            if len(args) != len(subs):
                raise CodeParseError(f"einsum operand count in {f}")
            return node("ein", subs=subs, out=self.ids(rhs), args=args)
        if f.startswith("contract("):
            inner = f[len("contract("):-1]
            parts = split_top(inner, ",")
            over = self.ids(parts[0].replace("|", ""))
            return node("con", out=over,
                        args=[self.expr(a) for a in parts[1:]])
        if f.startswith("dot_product("):
            inner = f[len("dot_product("):-1]
            return node("dot", args=[self.expr(a)
                                     for a in split_top(inner, ",")])
        m = re.fullmatch(r"([A-Za-z_][\w\.]*)\(([^()]*)\)", f)
        if m:      # libtensor tensor with labels
            return node("ten", o=self.tensor(m.group(1)),
                        lab=self.ids(m.group(2).replace("|", "")))
        if re.fullmatch(r"[A-Za-z_][\w\.]*", f):
            return node("ten", o=self.tensor(f))
        raise CodeParseError(f"can not parse factor {f!r}")

    def expr(self, s, pref=None):
        own = pref is None
        pref = pref if pref is not None else [Fraction(1), 0, 0]
        comps = [self.factor(f, pref) for f in split_top(s, " * ")]
        comps = [c for c in comps if c is not None]
        if own and (pref[0] != 1 or pref[1] or pref[2]):
            raise CodeParseError(f"numeric factor inside a contraction: {s}")
        if not comps:
            return node("one")
        if len(comps) == 1:
            return comps[0]
        return node("mul", args=comps)


def parse_perms(s, idx_of_name):
    """'1' or '(1 - P_ij + P_abP_ij)' -> [{f, ps}]"""
    s = s.strip()
    if s == "1":
        return []
    if not (s.startswith("(1") and s.endswith(")")):
        raise CodeParseError(f"permutation operator {s!r}")
    body = s[2:-1].strip()
    out = []
    for m in re.finditer(r"([+-]) ((?:P_\w+?)+)(?= [+-] |$)", body):
        f = 1 if m.group(1) == "+" else -1
        ps = []
        for pm in re.finditer(r"P_((?:[a-z]\d*){2})", m.group(2)):
            a, b = split_idx_string(pm.group(1))
            ps.append([idx_of_name[a], idx_of_name[b]])
        out.append({"f": f, "ps": ps})
    if not out and body:
        raise CodeParseError(f"permutation operator {s!r}")
    return out


def parse_program(text, names, symbols, idx_of_name, backend):
    blocks = []
    comment = "#" if backend == "einsum" else "//"
    for chunk in text.split("\n\n"):
        lines = [ln for ln in chunk.split("\n") if ln.strip()]
        if not lines:
            continue
        if not lines[0].startswith("The scaling comment"):
            raise CodeParseError(f"unexpected header {lines[0]!r}")
        m = re.fullmatch(r"Apply (.*) to:", lines[1])
        if not m:
            raise CodeParseError(f"unexpected line {lines[1]!r}")
        perms = parse_perms(m.group(1), idx_of_name)
        plines = []
        for ln in lines[2:]:
            code = ln.split("  " + comment)[0].strip()
            sign = {"+": 1, "-": -1}[code[0]]
            pref = [Fraction(sign), 0, 0]
            p = Parser(names, symbols, idx_of_name, backend)
            nd = p.expr(code[1:].strip(), pref)
            plines.append({"num": pref[0].numerator, "den": pref[0].denominator,
                           "s2": pref[1], "s3": pref[2], "node": nd})
        blocks.append({"perms": perms, "lines": plines})
    return blocks
