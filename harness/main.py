import argparse
import importlib
import json
import os
import sys
import traceback

from .runner import Check


def main():
    ap = argparse.ArgumentParser()
    ap.add_argument("pid")
    ap.add_argument("--tier", default=os.environ.get("VERIF_TIER", "quick"),
                    choices=["quick", "thorough"])
    ap.add_argument("--replay", default=None)
    ap.add_argument("--seed", type=int,
                    default=int(os.environ.get("VERIF_SEED", "20261004")))
    args = ap.parse_args()
    pid = args.pid.upper()
    if pid == "SELFTEST":
        from . import selftest
        sys.exit(selftest.main(args))
    try:
        mod = importlib.import_module(f"harness.props.{pid.lower()}")
    except ImportError:
        traceback.print_exc()
        print(f"no driver for {pid}", file=sys.stderr)
        sys.exit(2)
    chk = Check(pid, args.tier, args.seed)
    from . import build
    build.TIER = args.tier
    if args.replay:
        from . import replay
        sys.exit(replay.replay(chk, args.replay))
    try:
        rc = mod.run(chk)
    except Exception:
        traceback.print_exc()
        print(f"{pid}: machinery failure (exception in the driver)")
        sys.exit(2)
    sys.exit(rc)


if __name__ == "__main__":
    main()
