"""Replays the cases enumerated by spec/Helpers.tla into the real helper
functions of adcgen and compares the results (spec -> code conformance, one
implementation call per specification state).

    python -m harness.helpers_replay <file with one JSON case per line>

prints  HLPRESULT {...}.
"""
import json
import sys
from fractions import Fraction

CHARS = {1: "i", 2: "a", 3: "1", 4: "0"}
LETTERS = "ijklmno"
MIN_SPACE = {"pp": "ph", "ip": "h", "ea": "p", "dip": "hh", "dea": "pp"}


def name_of(nm):
    return LETTERS[nm[0] - 1] + (str(nm[1]) if nm[1] else "")


def frac(x):
    from sympy import Rational, nsimplify
    x = nsimplify(x, rational=True)
    x = Rational(x)
    return Fraction(int(x.p), int(x.q))


def series_ok(got, want):
    if len(got) != len(want):
        return f"{len(got)} exponents instead of {len(want)}"
    for k, (g, w) in enumerate(zip(got, want), 1):
        pref, orders = g
        if frac(pref) != Fraction(w["pref"][0], w["pref"][1]):
            return (f"exponent {k}: prefactor {pref} instead of "
                    f"{Fraction(w['pref'][0], w['pref'][1])}")
        go = [tuple(o) for o in orders]
        wo = {tuple(o) for o in w["orders"]}
        if len(go) != len(set(go)) or set(go) != wo:
            return f"exponent {k}: orders {sorted(go)} instead of {sorted(wo)}"
    return None


def main(path):
    from adcgen import (Operators, GroundState, IntermediateStates,
                        SecularMatrix)
    from adcgen.func import gen_term_orders
    from adcgen.indices import get_lowest_avail_indices, split_idx_string
    gs = GroundState(Operators("mp"))
    isr = {v: IntermediateStates(gs, v) for v in MIN_SPACE}
    sm = {v: SecularMatrix(isr[v]) for v in MIN_SPACE}
    n, bad, per = 0, [], {}
    for line in open(path):
        line = line.strip()
        if not line:
            continue
        rec = json.loads(line)
        c, r = rec["c"], rec["r"]
        n += 1
        per[c["f"]] = per.get(c["f"], 0) + 1
        err = None
        try:
            if c["f"] == "gto":
                got = gen_term_orders(c["order"], c["len"], c["mn"])
                got = [tuple(t) for t in got]
                want = {tuple(t) for t in r["sets"]}
                if len(got) != len(set(got)) or set(got) != want:
                    err = f"{sorted(got)} instead of {sorted(want)}"
            elif c["f"] == "stay":
                err = series_ok(isr["pp"].expand_S_taylor(c["order"], c["mn"]),
                                r["series"])
            elif c["f"] == "norm":
                err = series_ok(gs.expand_norm_factor(c["order"], c["mn"]),
                                r["series"])
            elif c["f"] == "bord":
                for v, ms in MIN_SPACE.items():
                    def cls(sp):
                        return (len(sp) - len(ms)) // 2 + 1
                    got = {(cls(a), cls(b)): o for (a, b), o in
                           sm[v].block_order(c["n"]).items()}
                    want = {(b[0], b[1]): b[2] for b in r["blocks"].values()}
                    if got != want:
                        err = f"{v}: block_order {got} instead of {want}"
                        break
                    gsp = {cls(sp): o for sp, o in
                           sm[v].max_ptorder_spaces(c["n"]).items()}
                    wsp = {k + 1: o for k, o in enumerate(r["spaces"])}
                    if gsp != wsp:
                        err = f"{v}: max_ptorder_spaces {gsp} instead of {wsp}"
                        break
            elif c["f"] == "low":
                used = [name_of(u) for u in c["used"]]
                got = get_lowest_avail_indices(c["n"], used, "occ")
                want = [name_of(x) for x in r["names"]]
                if list(got) != want:
                    err = f"{list(got)} instead of {want}"
            elif c["f"] == "mti":
                from adcgen.indices import (minimize_tensor_indices,
                                            get_symbols)
                lets = {1: "ijklmno", 2: "abcdefgh"}
                spc = {1: "occ", 2: "virt"}

                def nm(x):
                    return lets[x[0]][x[1] - 1] + (str(x[2]) if x[2] else "")
                syms = [get_symbols(nm(x))[0] for x in c["t"]]
                tgt = {}
                for x in c["tgt"]:
                    tgt.setdefault((spc[x[0]], ""), []).append(nm(x))
                got, perms = minimize_tensor_indices(tuple(syms), tgt)
                want = [nm(x) for x in r["names"]]
                if [s_.name for s_ in got] != want:
                    err = (f"{[s_.name for s_ in syms]} targets {tgt}: "
                           f"{[s_.name for s_ in got]} instead of {want}")
                else:
                    # the returned transpositions map the input onto the result
                    cur = list(syms)
                    for p_ in perms:
                        a_, b_ = tuple(p_)
                        cur = [b_ if s_ is a_ else a_ if s_ is b_ else s_
                               for s_ in cur]
                    if [s_.name for s_ in cur] != want:
                        err = (f"{[s_.name for s_ in syms]}: the returned "
                               f"permutations {perms} give "
                               f"{[s_.name for s_ in cur]} instead of {want}")
            elif c["f"] == "split":
                s = "".join(CHARS[x] for x in c["s"])
                got = split_idx_string(s)
                want = ["".join(CHARS[x] for x in p) for p in r["parts"]]
                if list(got) != want:
                    err = f"{s!r}: {list(got)} instead of {want}"
        except Exception as exc:     # noqa
            err = f"raised {type(exc).__name__}: {exc}"
        if err:
            bad.append({"case": c, "detail": err[:400]})
    print("HLPRESULT " + json.dumps({"n": n, "per_function": per,
                                     "n_bad": len(bad), "bad": bad[:20]}))


if __name__ == "__main__":
    main(sys.argv[1])
