"""Common driver: collects events, lets TLC judge them, writes evidence."""
import hashlib
import json
import os
import sys
import time
import traceback

from . import tlc

VERIF = os.path.dirname(os.path.dirname(os.path.abspath(__file__)))
EVID = os.path.join(VERIF, "evidence")
REPLAY = os.path.join(VERIF, ".work", "replay")
KNOWN = os.path.join(VERIF, "known_findings.json")


def load_known():
    if not os.path.exists(KNOWN):
        return []
    with open(KNOWN) as fh:
        return json.load(fh).get("findings", [])


class Check:
    def __init__(self, pid, tier, seed):
        self.pid = pid
        self.tier = tier
        self.seed = seed
        self.t0 = time.time()
        self.events = []          # events to be judged by TraceJudge
        self.states = 0
        self.transitions = 0
        self.traces_ok = 0
        self.violations = []      # (key, what, replay path)
        self.known_hits = []
        self.samples = []
        self.notes = {}
        self.counters = {}
        self.mc_runs = []
        self.assumptions = []
        self.machinery_errors = []
        self._tid = 0
        self.known = [k for k in load_known() if k.get("property") == pid
                      and k.get("status", "open") == "open"]

    # ------------------------------------------------------------ events ---
    def next_tid(self):
        self._tid += 1
        return self._tid

    def count(self, key, n=1):
        self.counters[key] = self.counters.get(key, 0) + n

    def add_event(self, ev):
        ev.setdefault("tid", self.next_tid())
        ev.setdefault("prop", self.pid)
        ev.setdefault("key", "")
        ev.setdefault("a", {"x": 0})
        self.events.append(ev)
        return ev

    def add_sample(self, s):
        if len(self.samples) < 6:
            self.samples.append(s)

    # ------------------------------------------------------------- TLC ----
    def run_mc(self, module, cfg=None, timeout=3600, workers=16, extra=(),
               env=None, expect_ok=True, what=""):
        """Model-check a design-level machine; an invariant violation of the
        design model is a machinery error (the spec is wrong), not a verdict
        about the code."""
        res = tlc.run_tlc(module, cfg=cfg, timeout=timeout, workers=workers,
                          extra=extra, env=env)
        ok = ("Model checking completed. No error has been found" in
              res["stdout"]) or ("Finished in" in res["stdout"] and
                                 "Error:" not in res["stdout"])
        self.states += res["distinct"]
        self.transitions += res["states"]
        self.mc_runs.append({"module": module, "cfg": cfg or module + ".cfg",
                             "distinct": res["distinct"],
                             "generated": res["states"],
                             "wall_s": round(res["wall"], 1), "ok": ok,
                             "what": what})
        if expect_ok and not ok:
            self.machinery_errors.append(
                f"model checking of {module} ({cfg}) failed:\n" +
                res["stdout"][-2500:])
        return res

    def judge(self, events=None, module="TraceJudge", chunk=400, workers=16,
              timeout=3000, tag="VERDICT"):
        """Judge events with TLC; returns {tid: [failed clauses]}."""
        events = self.events if events is None else events
        verdicts = {}
        for i in range(0, len(events), chunk):
            part = events[i:i + chunk]
            try:
                res = tlc.judge_events(part, module=module, workers=workers,
                                       timeout=timeout, tag=tag)
            except tlc.TLCError as exc:
                self.machinery_errors.append(str(exc))
                continue
            self.states += res["distinct"]
            self.transitions += res["states"]
            self.notes["tlc_judge_wall_s"] = round(
                self.notes.get("tlc_judge_wall_s", 0) + res["wall"], 1)
            for (tid, m), fails in res["verdicts"].items():
                verdicts.setdefault(tid, [])
                for f in fails:
                    verdicts[tid].append({"model": m, "clause": f[0],
                                          "detail": f[1]})
        for ev in events:
            if ev.get("op") == "globals" or ev["tid"] not in verdicts:
                continue
            fails = verdicts[ev["tid"]]
            mach = [f for f in fails if str(f["clause"]).startswith("MACHINERY")]
            if mach:
                self.machinery_errors.append(
                    f"event {ev.get('what')}: {mach[0]['clause']} {mach[0]['detail']}")
                continue
            if not fails:
                self.traces_ok += 1
            else:
                self.report(ev, fails)
        return verdicts

    def judge_with_header(self, header, events, **kw):
        """Judge events that refer to shared (global) models: the header
        record goes first, it is not an event."""
        hdr = dict(header)
        hdr.setdefault("tid", 0)
        hdr.setdefault("models", [])
        return self.judge(events=[hdr] + list(events), **kw)

    # --------------------------------------------------------- verdicts ---
    def match_known(self, key, clauses=()):
        for k in self.known:
            if k["key"] == key:
                cl = k.get("clauses")
                if cl and clauses and not set(clauses) <= set(cl):
                    continue
                return k
        return None

    def report(self, ev, fails, extra=None):
        key = ev.get("key", "")
        clauses = sorted({f["clause"] for f in fails})
        what = ev.get("what", ev.get("op", "")) + " " + ",".join(clauses)
        k = self.match_known(key, clauses)
        if k is not None:
            self.known_hits.append((key, k["what"]))
            return
        os.makedirs(REPLAY, exist_ok=True)
        blob = json.dumps({"event": ev, "fails": fails, "extra": extra},
                          sort_keys=True, default=str)
        h = hashlib.sha1(blob.encode()).hexdigest()[:12]
        path = os.path.join(REPLAY, f"{self.pid}_{h}.json")
        with open(path, "w") as fh:
            fh.write(blob)
        self.violations.append((key, what, path, fails))

    def report_direct(self, key, what, payload):
        """A violation established without a TLC event (e.g. undocumented
        exception); still subject to the known-findings list."""
        k = self.match_known(key)
        if k is not None:
            self.known_hits.append((key, k["what"]))
            return
        os.makedirs(REPLAY, exist_ok=True)
        blob = json.dumps({"direct": payload, "key": key, "what": what},
                          sort_keys=True, default=str)
        h = hashlib.sha1(blob.encode()).hexdigest()[:12]
        path = os.path.join(REPLAY, f"{self.pid}_{h}.json")
        with open(path, "w") as fh:
            fh.write(blob)
        self.violations.append((key, what, path, []))

    # ---------------------------------------------------------- finish ----
    def finish(self, rule, level="model_checking", extra_cov=None):
        wall = time.time() - self.t0
        os.makedirs(EVID, exist_ok=True)
        cov = {
            "states": int(self.states),
            "transitions": int(self.transitions),
            "traces_validated_against_impl": int(self.traces_ok),
            "samples": self.samples or ["(no sample recorded)"],
            "evaluations": int(sum(self.counters.values()) or
                               len(self.events)),
            "distinct_nontrivial": int(self.traces_ok),
            "rule": rule,
            "counters": self.counters,
            "mc_runs": self.mc_runs,
            "known_findings_hit": sorted({k for k, _ in self.known_hits}),
            "exhaustive": bool(self.notes.get("exhaustive", False)),
        }
        cov.update(self.notes)
        if extra_cov:
            cov.update(extra_cov)
        evidence = {
            "property_id": self.pid, "tier": self.tier, "seed": int(self.seed),
            "level": level, "coverage": cov,
            "assumptions": self.assumptions,
            "wall_s": round(wall, 2),
            "violations": len(self.violations),
        }
        evdir = EVID if self.pid.startswith("C") and self.pid[1:].isdigit() \
            else os.path.join(VERIF, ".work")
        os.makedirs(evdir, exist_ok=True)
        with open(os.path.join(evdir, f"{self.pid}.json"), "w") as fh:
            json.dump(evidence, fh, indent=1, default=str)
        seen = set()
        for key, what in self.known_hits:
            if key in seen:
                continue
            seen.add(key)
            print(f"KNOWN-FINDING: property={self.pid} {key}: {what}")
        if self.machinery_errors:
            for m in self.machinery_errors:
                print("MACHINERY-ERROR:", m, file=sys.stderr)
            print(f"{self.pid}: machinery failure "
                  f"({len(self.machinery_errors)})")
            return 2
        if self.violations:
            shown = set()
            for key, what, path, fails in self.violations:
                print(f"VIOLATION property={self.pid} replay={path}")
                if key not in shown:
                    shown.add(key)
                    print(f"  {key} :: {what}")
                    for f in fails[:2]:
                        print(f"    clause={f['clause']} model={f['model']} "
                              f"detail={str(f['detail'])[:300]}")
            return 1
        print(f"{self.pid} {self.tier}: held on everything explored "
              f"({self.traces_ok} traces accepted by TLC, "
              f"{self.states} states, {wall:.0f}s)")
        return 0


class LibraryTimeout(BaseException):
    pass


def _alarm(signum, frame):
    raise LibraryTimeout()


CALL_TIMEOUT = 60       # seconds per library call; a time-out is not a verdict


def guarded(fn, *args, documented=(), call_timeout=None, **kw):
    import signal
    old = signal.signal(signal.SIGALRM, _alarm)
    signal.setitimer(signal.ITIMER_REAL, call_timeout or CALL_TIMEOUT)
    try:
        return _guarded(fn, *args, documented=documented, **kw)
    except LibraryTimeout:
        return None, {"type": "NotImplementedError", "documented": True,
                      "msg": f"harness time-out after {call_timeout or CALL_TIMEOUT}s "
                             "(call skipped)", "timeout": True}
    finally:
        signal.setitimer(signal.ITIMER_REAL, 0)
        signal.signal(signal.SIGALRM, old)


def _guarded(fn, *args, documented=(), **kw):
    """Call the library; returns (result, exception record or None).
    Exceptions of a documented type are refusals, anything else is reported
    by the caller as a contract failure of that event."""
    try:
        return fn(*args, **kw), None
    except documented as exc:
        return None, {"type": type(exc).__name__, "msg": str(exc)[:300],
                      "documented": True}
    except Exception as exc:            # noqa
        return None, {"type": type(exc).__name__, "msg": str(exc)[:300],
                      "documented": False,
                      "tb": traceback.format_exc()[-1500:]}
