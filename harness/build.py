"""Event builders shared by the property drivers."""
from . import adapter, events
from adcgen.expr_container import Expr

SIZES = [(3, 3), (3, 2), (2, 3), (2, 2)]
BUDGET = {"quick": 250_000, "thorough": 1_500_000}
TIER = "quick"



def n_assign(idx, tgt, no, nv, spin=False):
    n = 1
    for i in tgt:
        s = idx[i - 1]["s"]
        r = no if s == "o" else nv if s == "v" else no + nv
        if spin:
            r = r * 2 if not idx[i - 1]["p"] else r
        n *= max(r, 1)
    return n


def cost(terms_list, idx, tgt, no, nv, spin=False):
    f = 2 if spin else 1
    sizes = {"o": no * f, "v": nv * f, "g": (no + nv) * f}
    c = 0
    for terms in terms_list:
        c += adapter.loop_cost(terms, idx, sizes) + len(terms)
    return c * n_assign(idx, tgt, no, nv, spin)


def pick_sizes(terms_list, idx, tgt, budget, spin=False, sizes=None,
               max_models=2):
    """The largest model sizes within the budget ((2,2) is always used if
    nothing fits: the cost is then reported by the caller)."""
    out = []
    for no, nv in (sizes or SIZES):
        if cost(terms_list, idx, tgt, no, nv, spin) <= budget:
            out.append((no, nv))
            if (no, nv) == (3, 3) or len(out) >= max_models:
                break
    if not out:
        out = [(sizes or SIZES)[-1]]
    return out


def table_hint(terms_list, ctx, tgt, size, spin):
    """Which tensors are worth tabulating (estimated number of element
    evaluations exceeds the table size).  Performance only."""
    no, nv = size
    f = 2 if spin else 1
    sizes = {"o": no * f, "v": nv * f, "g": (no + nv) * f}
    norb = (no + nv) * f
    nt = n_assign(ctx.idx, tgt, no, nv, spin)
    evals = {}
    for terms in terms_list:
        for t in terms:
            seen = set(tgt)
            c = 1
            level_cost = {0: 1}
            for k, i in enumerate(t["ord"], 1):
                ix = ctx.idx[i - 1]
                c *= sizes[ix["s"]] if not ix["p"] else max(1, sizes[ix["s"]] // 2)
                level_cost[k] = c
            for o in t["objs"]:
                if o["k"] not in ("A", "M", "S", "N"):
                    continue
                lev = max([t["ord"].index(i) + 1 if i in t["ord"] else 0
                           for i in adapter.obj_indices(o)] or [0])
                key = (o["nid"], o["k"], len(o["u"]), len(o["l"]))
                evals[key] = evals.get(key, 0) + level_cost[lev] * nt
    hint = [[] for _ in range(len(ctx.names))]
    for (nid, k, nu, nl), n in sorted(evals.items()):
        size_t = norb ** (nu + nl)
        if size_t <= 60000 and n > 1.5 * size_t:
            hint[nid - 1].append([k, nu, nl])
    return hint


def expand_mul(expr):
    """Distribute products over sums but keep (bracket)**-n denominators
    (sympy's full expand multiplies squared denominators out)."""
    from sympy import expand
    e2 = Expr(expand(expr.sympy, multinomial=False, power_base=False,
                     power_exp=False, log=False), **expr.assumptions)
    return e2


_LETTERS = {"occ": "ijklmno", "virt": "abcdefgh", "general": "pqrstuvw"}


def rename_dummies(expr, r, fresh_prob=0.5):
    """Per term an independent random injective renaming of the contracted
    indices within their (space, spin) class - a pure alpha-renaming of
    summation indices, term by term (legal input for every operation that is
    specified on values).  Returns a new Expr with the same assumptions."""
    from sympy import Add
    from adcgen.indices import get_symbols
    out = []
    for term in expr.terms:
        taken = {s.name for s in term.idx}
        groups = {}
        for s_ in term.contracted:
            groups.setdefault((s_.space, s_.spin), []).append(s_)
        sub = {}
        for (sp, spin), lst in sorted(groups.items()):
            pool = [s_.name for s_ in lst]
            for _ in range(len(lst)):
                if r.random() < fresh_prob:
                    n = 0
                    while True:
                        cands = [c + (str(n) if n else "")
                                 for c in _LETTERS[sp]]
                        cands = [c for c in cands
                                 if c not in taken and c not in pool]
                        if cands:
                            pool.append(r.choice(cands))
                            break
                        n += 1
            r.shuffle(pool)
            for s_, new in zip(lst, pool):
                if new != s_.name:
                    sub[s_] = get_symbols(new, spin if spin else None)[0]
        out.append(term.sympy.subs(sub, simultaneous=True) if sub
                   else term.sympy)
    return Expr(Add(*out), **expr.assumptions)


def has_spin(ctx):
    return any(ix["p"] for ix in ctx.idx)


def targets_of(expr, terms, ctx):
    """Target rule: explicit targets of the PRE state, else the summation
    convention applied to the PRE state."""
    prov = getattr(expr, "provided_target_idx", None)
    if prov is not None:
        return sorted(ctx.index(s) for s in prov)
    return adapter.einstein_targets(terms)


def valpres(pre, post, *, op="valpres", key="", what="", seeds=(1, 2),
            budget=None, fock="gen", sym=(), antisym=(), extra=None,
            tgt_syms=None, sizes=None, more_sides=None, spin_model=None,
            model_kw=None, names=None, global_models=None, alias_cc=False):
    """Event for a value preserving transformation pre -> post (adcgen Expr
    or sympy).  Raises adapter.Unsupported if a side has no AST."""
    ctx = adapter.Ctx(names=names, alias_cc=alias_cc)
    tp = adapter.project_expr(pre, ctx)
    tq = adapter.project_expr(post, ctx)
    if tgt_syms is not None:
        tgt = sorted(ctx.index(s) for s in tgt_syms)
    else:
        tgt = targets_of(pre, tp, ctx)
    sides = {"pre": tp, "post": tq}
    if more_sides:
        for name, x in more_sides.items():
            sides[name] = adapter.project_expr(x, ctx)
    for terms in sides.values():
        adapter.fill_order(terms, tgt)
    assume_sym = tuple(getattr(pre, "sym_tensors", ())) + tuple(sym)
    assume_anti = tuple(getattr(pre, "antisym_tensors", ())) + tuple(antisym)
    bkn = events.collect_bk(
        ctx, [(tp, True)] + [(t, False) for n, t in sides.items()
                             if n != "pre"],
        assume_sym, assume_anti)
    spin = has_spin(ctx) if spin_model is None else spin_model
    if budget is None:
        budget = BUDGET[TIER]
    szs = pick_sizes(list(sides.values()), ctx.idx, tgt, budget, spin=spin,
                     sizes=sizes) if global_models is None else []
    models = []
    if global_models is not None:
        # [(ref index, no, nv)]: models shared by the events of the trace;
        # use those within the budget (at least the cheapest one)
        if budget is None:
            budget = BUDGET[TIER]
        costed = sorted((cost(list(sides.values()), ctx.idx, tgt, no, nv,
                              spin), k, no, nv)
                        for k, no, nv in global_models)
        mincost = costed[0][0]
        keep = [(k, no, nv) for c, k, no, nv in costed
                if c <= budget or c == mincost]
        keep.sort()
        szs = [(no, nv) for _, no, nv in keep]
        models = [{"ref": k} for k, _, _ in keep]
    for (no, nv) in ([] if global_models is not None else szs):
        for sd in seeds:
            kw = dict(noa=no, nva=nv, nob=no if spin else 0,
                      nvb=nv if spin else 0, seed=sd, fock=fock, bkn=bkn)
            if model_kw:
                kw.update(model_kw)
            models.append(events.model(ctx, **kw))
    tabhint = table_hint(list(sides.values()), ctx, tgt, szs[0], spin)
    if names is not None:      # shared numbering: pad to the common length
        tabhint += [[] for _ in range(len(names) - len(tabhint))]
    ev = {"tabhint": tabhint, "op": op, "key": key, "what": what, "idx": ctx.idx, "tgt": tgt,
          "names": ctx.name_list(), "models": models,
          "text": {"pre": adapter.text(pre)[:600],
                   "post": adapter.text(post)[:600]},
          "a": extra or {"x": 0}}
    ev.update(sides)
    ev["_cost"] = cost(list(sides.values()), ctx.idx, tgt, szs[0][0],
                       szs[0][1], spin)
    ev["_sizes"] = szs
    # cost on the cheapest model the event will be judged on
    ev["_mincost"] = min(cost(list(sides.values()), ctx.idx, tgt, no, nv, spin)
                         for (no, nv) in szs)
    return ev, ctx
