"""
Syntactic projection  sympy / adcgen object  ->  JSON AST  (see spec/ExprSem.tla).

Nothing in this module evaluates an expression or decides a property: it only
walks the sympy tree, splits rational / sqrt prefactors and numbers indices and
tensor names.  Indices are identified by object identity (sympy Dummy
equality: name + dummy_index + assumptions).
"""
from sympy import (Add, Mul, Pow, Rational, Integer, S, Symbol, sympify,
                   factorint, Number)
from sympy.physics.secondquant import F, Fd, NO

from adcgen.expr_container import Expr
from adcgen.indices import Index
from adcgen.sympy_objects import (AntiSymmetricTensor, SymmetricTensor,
                                  Amplitude, NonSymmetricTensor,
                                  KroneckerDelta)


class Unsupported(Exception):
    """The object can not be represented in the AST (not a verdict)."""


SPACE = {"occ": "o", "virt": "v", "general": "g"}
INT_MAX = 2**31 - 1
P = 10007


class Ctx:
    """Per-event numbering of indices and tensor names."""

    def __init__(self, names=None, alias_cc=False):
        # alias_cc: real orbital basis - the complex conjugate t-amplitude
        # t{n}cc IS the amplitude t{n} (same tensor in every real model)
        self.alias_cc = alias_cc
        self.idx_ids = {}      # Index -> id (1 based)
        self.idx = []          # [{n, s, p}]
        self.idx_objs = []     # the Index objects
        # name -> nid (1 based); a shared dict gives the events of one trace
        # a common numbering (needed for models shared between events)
        self.names = names if names is not None else {}

    def index(self, s) -> int:
        if not isinstance(s, Index):
            raise Unsupported(f"non Index symbol {s!r} ({type(s)})")
        i = self.idx_ids.get(s)
        if i is None:
            i = len(self.idx) + 1
            self.idx_ids[s] = i
            self.idx.append({"n": s.name, "s": SPACE[s.space], "p": s.spin})
            self.idx_objs.append(s)
        return i

    def name(self, n: str) -> int:
        n = str(n)
        if self.alias_cc and n.endswith("cc") and n[:-2] and \
                n[:-2][-1].isdigit():
            n = n[:-2]
        i = self.names.get(n)
        if i is None:
            i = len(self.names) + 1
            self.names[n] = i
        return i

    def name_list(self):
        return [n for n, _ in sorted(self.names.items(), key=lambda kv: kv[1])]


def _split_number(num, acc):
    """Fold a numeric sympy factor into acc = [num, den, s2, s3]."""
    num = sympify(num)
    if isinstance(num, (Rational, Integer)) or num.is_Rational:
        acc[0] *= int(num.p)
        acc[1] *= int(num.q)
        return
    if num.is_Float:
        # the library types a few prefactors as 0.5: exact binary fractions
        r = Rational(float(num)).limit_denominator(10**6)
        if abs(float(r) - float(num)) > 1e-12:
            raise Unsupported(f"float factor {num!r}")
        acc[0] *= int(r.p)
        acc[1] *= int(r.q)
        return
    if isinstance(num, Pow):
        base, exp = num.args
        if base.is_Rational and exp.is_Rational and exp.q == 2:
            # (p/q)^(k/2)
            for b, sign in ((int(base.p), 1), (int(base.q), -1)):
                for prime, mult in factorint(b).items():
                    if prime == 2:
                        acc[2] += sign * mult * int(exp.p)
                    elif prime == 3:
                        acc[3] += sign * mult * int(exp.p)
                    else:
                        raise Unsupported(f"sqrt of prime {prime}")
            return
    if isinstance(num, Mul):
        for a in num.args:
            _split_number(a, acc)
        return
    raise Unsupported(f"numeric factor {num!r}")


def _norm_pref(acc):
    num, den, s2, s3 = acc
    # sqrt(2)^2 = 2 ...: keep exponents in {0, 1} (pure integer arithmetic)
    for pos, prime in ((2, 2), (3, 3)):
        e = acc[pos]
        k, r = divmod(e, 2)
        if k >= 0:
            num *= prime ** k
        else:
            den *= prime ** (-k)
        acc[pos] = r
    s2, s3 = acc[2], acc[3]
    if den < 0:
        num, den = -num, -den
    from math import gcd
    g = gcd(abs(num), den) or 1
    num, den = num // g, den // g
    if abs(num) > INT_MAX or den > INT_MAX:
        # TLC integers are 32 bit: reduce modulo the field's prime
        num, den = num % P, den % P
    return num, den, s2, s3


def _obj_record(k, nid, u, l, e=1, pt=None, bk=0, name=""):
    return {"k": k, "nid": nid, "nm": name, "u": list(u), "l": list(l),
            "e": int(e), "bk": int(bk), "pt": pt if pt is not None else []}


def project_base(base, exponent, ctx: Ctx):
    """A single non-numeric factor base**exponent -> obj record."""
    if not (sympify(exponent).is_Integer):
        raise Unsupported(f"non integer exponent {exponent}")
    e = int(exponent)
    if isinstance(base, Amplitude):
        kind = "M"
    elif isinstance(base, SymmetricTensor):
        kind = "S"
    elif isinstance(base, AntiSymmetricTensor):
        kind = "A"
    elif isinstance(base, NonSymmetricTensor):
        return _obj_record("N", ctx.name(base.name),
                           [ctx.index(s) for s in base.indices], [], e,
                           name=base.name)
    elif isinstance(base, KroneckerDelta):
        if e < 0:
            raise Unsupported("negative power of delta")
        return _obj_record("D", 0, [ctx.index(s) for s in base.args], [], 1,
                           name="delta")
    elif isinstance(base, Add):
        terms = [project_term(a, ctx) for a in base.args]
        return _obj_record("P", 0, [], [], e, pt=terms, name="")
    elif isinstance(base, Index):
        raise Unsupported("bare index")
    elif isinstance(base, Symbol):
        return _obj_record("Y", ctx.name(base.name), [], [], e,
                           name=base.name)
    elif isinstance(base, (F, Fd)):
        if e != 1:
            raise Unsupported("operator power")
        return _obj_record("F" if isinstance(base, F) else "Fd", 0,
                           [ctx.index(base.args[0])], [], 1,
                           name="a" if isinstance(base, F) else "a+")
    elif isinstance(base, NO):
        if e != 1:
            raise Unsupported("NO power")
        inner = base.args[0]
        ops = inner.args if isinstance(inner, Mul) else (inner,)
        pt = []
        for o in ops:
            b, ex = (o.args if isinstance(o, Pow) else (o, 1))
            pt.append(project_base(b, ex, ctx))
        # the members of the normal ordered group are stored as one bracket
        # "term" whose objects are the operators in order
        return _obj_record("NO", 0, [], [], 1,
                           pt=[{"num": 1, "den": 1, "s2": 0, "s3": 0,
                                "objs": pt, "ord": []}], name="NO")
    else:
        raise Unsupported(f"object {base!r} of type {type(base)}")
    return _obj_record(kind, ctx.name(base.name),
                       [ctx.index(s) for s in base.upper],
                       [ctx.index(s) for s in base.lower], e,
                       bk=int(base.bra_ket_sym), name=base.name)


def project_term(term, ctx: Ctx):
    """A sympy product (or single factor) -> term record (ord filled later)."""
    term = sympify(term)
    factors = term.args if isinstance(term, Mul) else (term,)
    acc = [1, 1, 0, 0]
    objs = []
    for f in factors:
        if f.is_number:
            _split_number(f, acc)
            continue
        base, exponent = (f.args if isinstance(f, Pow) else (f, 1))
        if isinstance(base, Mul):
            raise Unsupported(f"power of a product {f!r}")
        if isinstance(base, (F, Fd)) and sympify(exponent).is_Integer and \
                int(exponent) > 1:
            # sympy's notation for adjacent identical operators
            for _ in range(int(exponent)):
                objs.append(project_base(base, 1, ctx))
            continue
        objs.append(project_base(base, exponent, ctx))
    num, den, s2, s3 = _norm_pref(acc)
    # the non-commuting factors (in order) form ONE operator string object
    ops = [o for o in objs if o["k"] in ("F", "Fd", "NO")]
    if ops:
        objs = [o for o in objs if o["k"] not in ("F", "Fd", "NO")]
        objs.append(_obj_record("OPS", 0, [], [], 1, name="opstring", pt=[
            {"num": 1, "den": 1, "s2": 0, "s3": 0, "objs": ops, "ord": []}]))
    return {"num": num, "den": den, "s2": s2, "s3": s3, "objs": objs,
            "ord": []}


def project_expr(expr, ctx: Ctx):
    """adcgen Expr / sympy expression -> list of term records.
    The expression is NOT expanded or otherwise rewritten: an unexpanded
    product of sums is only representable as a bracket object."""
    sym = expr.sympy if hasattr(expr, "sympy") and not isinstance(
        expr, (Add, Mul, Pow, Symbol, Number)) else sympify(expr)
    if sym is S.Zero or sym == 0:
        return []
    terms = sym.args if isinstance(sym, Add) else (sym,)
    return [project_term(t, ctx) for t in terms]


# ---------------------------------------------------------------- helpers ---

def obj_indices(o):
    if o["k"] in ("P", "NO", "OPS"):
        s = []
        for t in o["pt"]:
            for oo in t["objs"]:
                s.extend(obj_indices(oo))
        return s
    return list(o["u"]) + list(o["l"])


def term_indices(t):
    out = []
    for o in t["objs"]:
        n = abs(o["e"]) if o["k"] not in ("P",) else abs(o["e"])
        ids = obj_indices(o)
        for _ in range(max(n, 1)):
            out.extend(ids)
    return out


def einstein_targets(terms):
    """Summation convention (as Term.target applies it, with exponent
    multiplicity): indices occurring exactly once in a term; the union over
    all terms (a well formed expression has the same targets in every term)."""
    tg = []
    for t in terms:
        ids = term_indices(t)
        for i in ids:
            if ids.count(i) == 1 and i not in tg:
                tg.append(i)
    return sorted(tg)


def fill_order(terms, tgt):
    """Loop order hint for the summed indices of each term (greedy: complete
    the cheapest object first).  The spec checks ord against the index set."""
    tgt = set(tgt)
    for t in terms:
        objs = [set(obj_indices(o)) for o in t["objs"]]
        assigned = set(tgt)
        order = []
        remaining = set().union(*objs) - assigned if objs else set()
        while remaining:
            best = None
            for s in objs:
                un = s - assigned
                if not un:
                    continue
                key = (len(un), -len(s))
                if best is None or key < best[0]:
                    best = (key, un)
            for i in sorted(best[1]):
                order.append(i)
                assigned.add(i)
            remaining -= best[1]
        t["ord"] = order
        for o in t["objs"]:
            if o["k"] == "P":
                for tt in o["pt"]:
                    tt["ord"] = []
    return terms


def loop_cost(terms, idx, sizes):
    """Number of innermost iterations (a budget estimate, not a verdict)."""
    tot = 0
    for t in terms:
        c = 1
        for i in t["ord"]:
            ix = idx[i - 1]
            c *= sizes[ix["s"]] if not ix["p"] else max(1, sizes[ix["s"]] // 2)
        tot += c
    return tot


def text(expr):
    try:
        return str(expr)
    except Exception as e:          # pragma: no cover
        return f"<unprintable {e}>"
