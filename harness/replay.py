"""Re-judge a recorded violating event with TLC."""
import json


def replay(chk, path):
    with open(path) as fh:
        blob = json.load(fh)
    if "event" not in blob:
        print(json.dumps(blob, indent=1)[:4000])
        print(f"VIOLATION property={chk.pid} replay={path}")
        return 1
    ev = blob["event"]
    module = ev.get("_module", "TraceJudge")
    chk.events = [ev]
    verdicts = chk.judge(module=module)
    print("recorded call :", ev.get("what"), ev.get("key"))
    for k, v in (ev.get("text") or {}).items():
        print(f"  {k}: {v}")
    print("verdict       :", json.dumps(verdicts.get(ev["tid"]), default=str)[:2000])
    if chk.machinery_errors:
        for m in chk.machinery_errors:
            print(m)
        return 2
    if verdicts.get(ev["tid"]):
        print(f"VIOLATION property={chk.pid} replay={path}")
        return 1
    print("accepted")
    return 0
