"""C06 - tensor objects identify exactly the tuples related by symmetry."""
import itertools
import random

from sympy import S

from adcgen.expr_container import Expr
from adcgen.indices import get_symbols
from adcgen.sympy_objects import (AntiSymmetricTensor, SymmetricTensor,
                                  Amplitude, KroneckerDelta)
from adcgen.tensor_names import tensor_names as tn

from .. import adapter, build, events, gen
from ..runner import guarded

# index universe: spaces, spins, numbered names incl. two-digit numbers
UNI = [("i", ""), ("j", ""), ("i1", ""), ("i10", ""), ("i12", ""), ("a", ""),
       ("b", ""), ("a2", ""), ("p", ""), ("q", ""), ("i", "a"), ("i", "b"),
       ("j", "a"), ("a", "a"), ("a", "b"), ("p", "a")]
KINDS = {"A": AntiSymmetricTensor, "S": SymmetricTensor, "M": Amplitude}


def sym(ix):
    return get_symbols([ix[0]], [ix[1]])[0]


def construct(kind, name, U, L, bk):
    return KINDS[kind](name, [sym(x) for x in U], [sym(x) for x in L], bk)


def orbit(U, L, bk):
    """all orderings related by the declared symmetry"""
    out = []
    for pu in set(itertools.permutations(U)):
        for pl in set(itertools.permutations(L)):
            out.append((list(pu), list(pl)))
            if bk != 0 and len(U) == len(L):
                out.append((list(pl), list(pu)))
    seen, res = set(), []
    for x in out:
        k = (tuple(x[0]), tuple(x[1]))
        if k not in seen:
            seen.add(k)
            res.append(x)
    return res


def tensor_event(chk, kind, U, L, bk, r, subs_mode=False):
    name = {"A": "W", "S": "B", "M": "X"}[kind]
    ctx = adapter.Ctx()
    members = []
    orb = orbit(U, L, bk)
    if len(orb) > 12:
        orb = orb[:1] + r.sample(orb[1:], 11)
    for (u, l) in orb:
        if subs_mode:
            # construct on fresh distinct indices, then substitute
            allix = list(dict.fromkeys(u + l))
            # placeholders of the right space/spin
            used = set(x[0] for x in UNI)
            ph = {}
            for ix in u + l:
                pass
            try:
                obj = construct(kind, name, u, l, bk)
            except Exception as exc:
                chk.report_direct("tensor:exception", f"{kind}{u}{l} {exc}", {})
                return
        else:
            obj, exc = guarded(construct, kind, name, u, l, bk)
            if exc:
                chk.report_direct("tensor:constructor:exception",
                                  f"{kind}({u},{l},bk={bk}) raised "
                                  f"{exc['type']}: {exc['msg']}", exc)
                return
        chk.count("constructions")
        inp = adapter._obj_record(kind, ctx.name(name),
                                  [ctx.index(sym(x)) for x in u],
                                  [ctx.index(sym(x)) for x in l], 1, bk=bk,
                                  name=name)
        out = adapter.project_expr(obj, ctx)
        members.append({"inp": inp, "out": out})
    tgt = sorted(set(range(1, len(ctx.idx) + 1)))
    spin = build.has_spin(ctx)
    bkn = [0] * len(ctx.names)
    bkn[ctx.names[name] - 1] = bk
    models = [events.model(ctx, noa=2, nva=2, nob=2 if spin else 0,
                           nvb=2 if spin else 0, seed=sd, bkn=bkn)
              for sd in (1, 2)]
    ev = {"op": "tensor", "key": "tensor:construct", "idx": ctx.idx,
          "tgt": tgt, "names": ctx.name_list(), "models": models,
          "what": f"{kind}('{name}', {U}, {L}, bk={bk}) and its orbit",
          "pre": [], "post": [], "tabhint": [[] for _ in ctx.names],
          "a": {"members": members},
          "text": {"pre": f"{kind} {U} {L} bk={bk}",
                   "post": str([str(construct(kind, name, u, l, bk))
                                for u, l in orb[:3]])}}
    chk.add_event(ev)
    return ev


def delta_event(chk, x, y):
    ctx = adapter.Ctx()
    members = []
    for (u, v) in ((x, y), (y, x)):
        obj = KroneckerDelta(sym(u), sym(v))
        chk.count("constructions")
        inp = adapter._obj_record("D", 0, [ctx.index(sym(u)),
                                           ctx.index(sym(v))], [], 1,
                                  name="delta")
        members.append({"inp": inp, "out": adapter.project_expr(obj, ctx)})
    tgt = list(range(1, len(ctx.idx) + 1))
    models = [events.model(ctx, noa=2, nva=2, nob=2, nvb=2, seed=1)]
    ev = {"op": "tensor", "key": "tensor:delta", "idx": ctx.idx, "tgt": tgt,
          "names": ctx.name_list(), "models": models,
          "what": f"KroneckerDelta({x}, {y}) / ({y}, {x})", "pre": [],
          "post": [], "tabhint": [], "a": {"members": members},
          "text": {"pre": f"delta {x} {y}", "post": ""}}
    if x == y:
        return
    chk.add_event(ev)


def assumption_event(chk, g, r):
    """Expr(..., sym_tensors / antisym_tensors / real) on a grammar sum."""
    g.new_expression(False)
    g._bk = {}
    targets = g.targets()
    terms = [g.term(targets, kinds=r.choice(["AAVf", "aAN", "AsV", "AAMf"]))
             for _ in range(r.randint(1, 3))]
    # the expression as built has no bra-ket symmetry on generic names
    for t in terms:
        for o in t["objs"]:
            if o["kind"] in ("A", "S") and o["name"] not in (tn.sym_orb_denom,):
                o["bk"] = 0
    total = gen.build_sum(terms)
    if total == 0:
        return
    names = sorted({o["name"] for t in terms for o in t["objs"]
                    if o["kind"] in ("A", "S") and
                    len(o["upper"]) == len(o["lower"])})
    mode = r.choice(["sym", "antisym", "real", "sym+real"])
    chosen = r.sample(names, min(len(names), r.randint(1, 2))) if names else []
    kw = {}
    if "sym" in mode and mode != "antisym":
        kw["sym_tensors"] = chosen
    if mode == "antisym":
        kw["antisym_tensors"] = chosen
    if "real" in mode:
        kw["real"] = True
    tsyms = [gen.sym_of(t) for t in targets]
    pre = Expr(total, target_idx=tsyms)
    post, exc = guarded(Expr, total, target_idx=tsyms, **kw)
    chk.count("assumption_calls")
    what = f"Expr({total}, {kw})"
    if exc:
        chk.report_direct("assume:exception", f"{what} raised {exc['type']}: "
                          f"{exc['msg']}", exc)
        return
    post2 = Expr(post.sympy, target_idx=tsyms, **kw)
    if "real" in mode:
        post2 = post2.make_real()
    sym_names = list(kw.get("sym_tensors", []))
    if kw.get("real"):
        sym_names += [tn.fock, tn.eri]
    try:
        ev, ctx = build.valpres(pre, post, op="assume", key="assume",
                                what=what, tgt_syms=tsyms, sym=sym_names,
                                antisym=kw.get("antisym_tensors", []),
                                more_sides={"post2": post2},
                                alias_cc=bool(kw.get("real")))
    except adapter.Unsupported:
        chk.count("unsupported")
        return
    affected = [ctx.names[n] for n in sym_names +
                list(kw.get("antisym_tensors", [])) if n in ctx.names]
    if kw.get("real"):
        # make_real renames complex conjugate amplitudes (the model
        # identifies t{n}cc with t{n}: alias_cc)
        affected += [v for n, v in ctx.names.items()
                     if n[:1] == tn.gs_amplitude and n[1:].isdigit()]
    ev["a"] = {"affected": affected or [-1]}
    chk.add_event(ev)
    chk.add_sample({"call": what[:300], "post": str(post)[:200]})


def run(chk):
    r = random.Random(chk.seed)
    quick = chk.tier == "quick"
    shapes = [(1, 1), (2, 2), (2, 1), (2, 0)] + ([] if quick else [(3, 3), (3, 1)])
    n_done = 0
    for kind in ("A", "S", "M"):
        for (nu, nl) in shapes:
            for bk in (0, 1, -1):
                if bk != 0 and nu != nl:
                    continue
                # all multisets of the universe for small ranks, sampled else
                slots = nu + nl
                if slots <= 2:
                    tuples = list(itertools.product(UNI, repeat=slots))
                else:
                    # (rank (3,3): orbits of up to 72 members - fewer tuples)
                    n = 150 if quick else 2500 if slots <= 4 else 500
                    tuples = [tuple(r.choice(UNI) for _ in range(slots))
                              for _ in range(n)]
                    # the interesting diagonal blocks: names differing only
                    # in the number / letter
                    fam = [("i", ""), ("i1", ""), ("i10", ""), ("i12", ""),
                           ("j", "")]
                    tuples += [tuple(r.choice(fam) for _ in range(slots))
                               for _ in range(n // 2)]
                seen = set()
                for t in tuples:
                    U, L = list(t[:nu]), list(t[nu:])
                    key = (tuple(sorted(U)), tuple(sorted(L)))
                    if bk != 0:
                        key = tuple(sorted(key))
                    if key in seen:
                        continue
                    seen.add(key)
                    ev = tensor_event(chk, kind, U, L, bk, r)
                    n_done += 1
                    if ev and n_done % 97 == 0:
                        chk.add_sample({"tensor": ev["what"],
                                        "constructed": ev["text"]["post"]})
    for x, y in itertools.combinations(UNI, 2):
        delta_event(chk, x, y)
    g = gen.Gen(chk.seed, spaces="ov")
    for _ in range(60 if quick else 600):
        try:
            assumption_event(chk, g, r)
        except RuntimeError:
            chk.count("generator_gave_up")
    # make_real on powers and products of complex-conjugate amplitudes
    from adcgen.indices import get_symbols
    from adcgen.sympy_objects import Amplitude, AntiSymmetricTensor
    from sympy import Rational
    i, j, a, b = get_symbols("ijab")
    gsa = tn.gs_amplitude
    T1cc = Amplitude(f"{gsa}1cc", (a, b), (i, j))
    T1 = Amplitude(f"{gsa}1", (a, b), (i, j))
    S2cc = Amplitude(f"{gsa}2cc", (a,), (i,))
    Fia = AntiSymmetricTensor(tn.fock, (i,), (a,), 0)
    for x0, tsy in [(Rational(1, 4) * T1cc ** 2, []),
                    (T1cc ** 2 * T1, []), (S2cc ** 2 * Fia, []),
                    (S2cc ** 3, [i, a]), (T1cc * T1 ** 2, []),
                    (T1cc ** 2, [i, j, a, b]),
                    (S2cc * T1cc ** 2 * Fia, [])]:
        pre = Expr(x0, target_idx=tsy)
        post, exc = guarded(Expr, x0, target_idx=tsy, real=True)
        chk.count("assumption_calls")
        what = f"Expr({x0}, real=True)"
        if exc:
            chk.report_direct("assume:exception", f"{what} raised "
                              f"{exc['type']}: {exc['msg']}", exc)
            continue
        post2 = Expr(post.sympy, target_idx=tsy, real=True).make_real()
        try:
            ev, ctx = build.valpres(pre, post, op="assume", key="assume:cc-powers",
                                    what=what, tgt_syms=tsy,
                                    sym=[tn.fock, tn.eri],
                                    more_sides={"post2": post2}, alias_cc=True)
        except adapter.Unsupported:
            chk.count("unsupported")
            continue
        ev["a"] = {"affected": [v for n, v in ctx.names.items()
                                if n[:len(gsa)] == gsa] +
                   [ctx.names[n] for n in (tn.fock, tn.eri) if n in ctx.names]
                   or [-1]}
        chk.add_event(ev)
    chk.notes["exhaustive"] = True
    chk.judge(chunk=1200)
    if chk.tier != "quick":
        # generated workflows (spec/PipelineGen.tla -> real API -> Pipeline.tla):
        # the steps that belong to this property's operations
        from .chains import run_chains
        run_chains(chk, 60, cfg="PipelineGen_l6.cfg", only_prop="C06")
    return chk.finish(
        rule="every index tuple (ranks (1,1),(2,0) exhaustive over a 16-index "
             "universe with spins and numbered names i, i1, i10, i12; ranks "
             "(2,1),(2,2) (and (3,3) thorough) sampled) x kind x bra-ket "
             "symmetry is constructed in every ordering of its symmetry orbit "
             "through the real constructors; TLC checks value = model value "
             "of the INPUT tuple, one canonical object per orbit, zero "
             "exactly when forced; all delta pairs; Expr(real / sym_tensors / "
             "antisym_tensors) on grammar sums: value, idempotence, untouched "
             "tensors")
