"""C08 - index renaming is capture-free and yields the documented names."""
import itertools
import random

from sympy import Mul

from adcgen.expr_container import Expr
from adcgen.indices import (get_symbols, order_substitutions, Indices, Index)
from adcgen.sympy_objects import NonSymmetricTensor, AntiSymmetricTensor

from .. import adapter, build, events, gen
from ..runner import guarded

DUMMY_MODEL = None


def tiny_model():
    ctx = adapter.Ctx()
    return [events.model(ctx, noa=1, nva=1, seed=1)]


def plain_event(op, key, what, a):
    return {"op": op, "key": key, "what": what, "idx": [], "tgt": [],
            "names": [], "models": tiny_model(), "pre": [], "post": [],
            "tabhint": [], "a": a, "text": {"pre": what, "post": ""}}


def order_subs_case(chk, names, image):
    """map names[k] -> image[k] (all same space); apply the returned list."""
    syms = get_symbols(names)
    imsyms = get_symbols(image)
    subsdict = {o: n for o, n in zip(syms, imsyms)}
    probe = NonSymmetricTensor("n", syms)
    lst, exc = guarded(order_substitutions, subsdict)
    chk.count("order_substitutions_calls")
    what = f"order_substitutions({dict(zip(names, image))})"
    if exc:
        chk.report_direct("order_substitutions:exception", f"{what} raised "
                          f"{exc['type']}: {exc['msg']}", exc)
        return
    res = probe.subs(lst)
    ids = {s: k + 1 for k, s in enumerate(syms)}

    def idof(s):
        if s not in ids:
            ids[s] = len(ids) + 1
        return ids[s]
    subs = [[idof(o), idof(n)] for o, n in lst]
    observed = [idof(s) for s in res.indices] if res != 0 else []
    a = {"n": len(names), "map": [ids[s] for s in imsyms], "subs": subs or [[0, 0]],
         "observed": observed}
    chk.add_event(plain_event("order_substitutions", "order_substitutions",
                              what, a))


def permute_case(chk, r, n):
    names = list("ijklm")[:n]
    syms = get_symbols(names)
    perms = []
    for _ in range(r.randint(1, 4)):
        p, q = r.sample(range(n), 2)
        perms.append((p, q))
    probe = Expr(NonSymmetricTensor("n", syms))
    res, exc = guarded(probe.copy().permute,
                       *[(syms[p], syms[q]) for p, q in perms])
    chk.count("permute_calls")
    what = f"Expr(n_{''.join(names)}).permute({[(names[p], names[q]) for p, q in perms]})"
    if exc:
        chk.report_direct("permute:exception", f"{what} raised {exc['type']}: "
                          f"{exc['msg']}", exc)
        return
    ids = {s: k + 1 for k, s in enumerate(syms)}
    observed = [ids[s] for s in res.sympy.indices]
    a = {"n": n, "perms": [[p + 1, q + 1] for p, q in perms],
         "observed": observed}
    chk.add_event(plain_event("permute", "permute", what, a))


def registry_history(chk, r, depth):
    """A random history of explicit and generic requests on a FRESH Indices
    instance (the process-wide singleton is left alone)."""
    reg = type.__call__(Indices)
    menu_names = ["i", "j", "i3", "j3", "o3", "a3", "i4", "k5", "a", "b4",
                  "p", "p3", "q3", "i3", "a4", "c3"]
    hist = []
    objid = {}

    def oid(s):
        if id(s) not in objid:
            objid[id(s)] = (len(objid) + 1, s)    # keep alive
        return objid[id(s)][0]
    for _ in range(depth):
        if r.random() < 0.5:
            k = r.randint(1, 3)
            nm = [r.choice(menu_names) for _ in range(k)]
            spins = [r.choice(["", "", "a", "b"]) for _ in range(k)]
            res, exc = guarded(reg.get_indices, nm, spins)
            if exc:
                chk.report_direct("registry:exception", f"get_indices({nm},"
                                  f"{spins}) raised {exc['type']}", exc)
                return
            keys, ids = [], []
            cnt = {}
            for n_, sp_ in zip(nm, spins):
                from adcgen.indices import index_space
                key = (index_space(n_), sp_)
                j = cnt.get(key, 0)
                cnt[key] = j + 1
                s = res[key][j]
                keys.append([s.name, s.space[0], s.spin])
                ids.append(oid(s))
            hist.append({"op": "get", "keys": keys, "ids": ids, "n": k,
                         "space": "", "spin": ""})
        else:
            space = r.choice(["occ", "virt", "general"])
            spin = r.choice(["", "", "a", "b"])
            n = r.randint(1, 9)
            kw = {f"{space}_{spin}" if spin else space: n}
            res, exc = guarded(reg.get_generic_indices, **kw)
            if exc:
                chk.report_direct("registry:exception", f"get_generic_indices"
                                  f"({kw}) raised {exc['type']}", exc)
                return
            lst = res[(space, spin)]
            hist.append({"op": "generic", "space": space[0], "spin": spin,
                         "n": n,
                         "keys": [[s.name, s.space[0], s.spin] for s in lst],
                         "ids": [oid(s) for s in lst]})
    chk.count("registry_requests", len(hist))
    chk.add_event(plain_event("registry", "registry",
                              f"registry history of {len(hist)} requests",
                              {"hist": hist}))
    return hist


def rename_case(chk, g, r, mode, crowded=False):
    g.new_expression(False)
    if crowded:
        # many contracted indices in one space and numbered target names:
        # the lowest-name pool overflows the base letters
        sp = r.choice("ov")
        n_t = r.randint(1, 2)
        tnames = r.sample([gen.BASE[sp][0] + "1", gen.BASE[sp][1] + "1",
                           gen.BASE[sp][2] + "2", gen.BASE[sp][0]], n_t)
        targets = [(t, "") for t in tnames]
        shapes = [dict(kind="A", name=f"W22", nu=2, nl=2, su=[sp] * 2,
                       sl=[sp] * 2, bk=0) for _ in range(r.randint(4, 5))]
        shapes.append(dict(kind="N", name=f"n{n_t}", nu=n_t, nl=0,
                           su=[sp] * n_t, sl=[], bk=0))
        old = g.numbered_prob
        g.numbered_prob = 0.6
        try:
            t = g.term(targets, shapes=shapes, trace_prob=0.0)
        finally:
            g.numbered_prob = old
    else:
        targets = g.targets()
        t = g.term(targets, kinds=r.choice(["AAMSNVf", "AANN", "VVf", "MMV"]))
    term = gen.build_term(t)
    tsyms = [gen.sym_of(x) for x in targets]
    explicit = r.random() < 0.5 or crowded
    pre = Expr(term, target_idx=tsyms) if explicit else Expr(term)
    pre_copy = Expr(pre.sympy, **pre.assumptions)
    handed = []
    if mode == "generic":
        reg = Indices()
        for space, d in reg._symbols.items():
            for spin, dd in d.items():
                handed += [[n, space[0], spin] for n in dd]
        post, exc = guarded(pre.substitute_with_generic)
    else:
        post, exc = guarded(pre.substitute_contracted)
    chk.count("rename_calls")
    what = f"Expr({term}).{'substitute_with_generic' if mode == 'generic' else 'substitute_contracted'}() targets={tsyms if explicit else 'einstein'}"
    key = f"rename:{mode}" + (":crowded" if crowded else "")
    if exc:
        chk.report_direct(key + ":exception", f"{what} raised {exc['type']}: "
                          f"{exc['msg']}", exc)
        return
    try:
        ev, ctx = build.valpres(pre_copy, post, op="rename", key=key,
                                what=what, tgt_syms=tsyms,
                                sizes=[(2, 2)] if crowded else None,
                                budget=10**7 if crowded else None)
    except adapter.Unsupported:
        chk.count("unsupported")
        return
    ev["a"] = {"mode": "lowest" if mode == "lowest" else "generic",
               "handed": handed or [["-", "-", "-"]]}
    chk.add_event(ev)
    chk.add_sample({"call": what[:300], "post": str(post)[:200]})


def run(chk):
    r = random.Random(chk.seed)
    quick = chk.tier == "quick"
    # (a) order_substitutions: all maps on 4 (quick) / 5 (thorough) indices
    n = 4 if quick else 5
    names = list("ijklm")[:n]
    pool = names + (["n"] if quick else ["n", "o"])
    for image in itertools.product(pool, repeat=n):
        order_subs_case(chk, names, list(image))
    if quick:
        big = list("ijklm")
        for _ in range(400):
            order_subs_case(chk, big, [r.choice(big + ["n", "o"])
                                       for _ in big])
    chk.notes["exhaustive"] = True
    # (b) permute
    for _ in range(300 if quick else 1500):
        permute_case(chk, r, r.randint(2, 5))
    # (c) registry histories
    for _ in range(150 if quick else 600):
        registry_history(chk, r, r.randint(2, 8 if quick else 14))
    # (d) substitute_contracted / substitute_with_generic
    g = gen.Gen(chk.seed, spaces="ovg", general_prob=0.15, spins=True,
                numbered_prob=0.3)
    gc = gen.Gen(chk.seed + 5, spaces="ov")
    for k in range(150 if quick else 500):
        try:
            rename_case(chk, g, r, "lowest")
            rename_case(chk, g, r, "generic")
            if k % 5 == 0:
                rename_case(chk, gc, r, "lowest", crowded=True)
        except RuntimeError:
            chk.count("generator_gave_up")
    # (large trace files are slow to deserialise in TLC: moderate chunks)
    chk.judge(chunk=2500 if quick else 1000)
    if chk.tier != "quick":
        # system-level workflows (spec/Pipeline.tla): the steps that belong
        # to this property's operations
        from .pipeline import run_pipelines
        run_pipelines(chk, "C08")
    if chk.tier != "quick":
        # generated workflows (spec/PipelineGen.tla -> real API -> Pipeline.tla):
        # the steps that belong to this property's operations
        from .chains import run_chains
        run_chains(chk, 60, cfg="PipelineGen_l6.cfg", only_prop="C08")
    # the registry as a state machine: every history of spec/Registry.tla
    # replayed into the real class (identity of repeated requests, generic
    # names never handed out before)
    from .c19 import registry_replay
    registry_replay(chk, chk.tier == "quick")
    # the pure helper functions behind this property (spec/Helpers.tla)
    from .helpers import run_helpers
    run_helpers(chk, ('low', 'split', 'mti'))
    return chk.finish(
        rule="(a) order_substitutions on every index map of 4 (thorough: 5) "
             "same-space indices into a pool with extra names (chains, cycles, "
             "many-to-one), returned list applied by the spec and by sympy; "
             "(b) Expr.permute with 1-4 random transpositions; (c) random "
             "histories of explicit/generic requests on a fresh Indices "
             "instance judged by the registry contract machine; (d) "
             "substitute_contracted / substitute_with_generic on grammar terms "
             "(incl. terms whose contracted indices overflow the base letters "
             "with numbered target names): value, targets kept, no merge, "
             "lowest / fresh names")
