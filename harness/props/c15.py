"""C15 - spin integration yields exactly the requested spin block."""
import itertools
import random

from adcgen.expr_container import Expr
from adcgen.indices import get_symbols
from adcgen.spatial_orbitals import (transform_to_spatial_orbitals,
                                     integrate_spin, allowed_spin_blocks)
from adcgen.tensor_names import tensor_names as tn
from adcgen import Intermediates

from .. import adapter, build, events, gen
from ..runner import guarded

SPINCONS = ["t1", "t2", "t3", "t1cc", "t2cc", "p0", "p1", "p2", "p3"]


def spin_models(ctx, bkn, restricted, seeds=(1, 2), n=2):
    scn = [ctx.names[x] for x in SPINCONS if x in ctx.names]
    return [events.model(ctx, noa=n, nob=n, nva=n, nvb=n, seed=sd, bkn=bkn,
                         spincons=True, eri="coulomb", scn=scn,
                         restricted=restricted) for sd in seeds]


def spin_event(chk, pre_expr, post_expr, tnames, tspin, restricted, key, what):
    ctx = adapter.Ctx()
    try:
        pre = adapter.project_expr(pre_expr, ctx)
        post = adapter.project_expr(post_expr, ctx)
    except adapter.Unsupported:
        chk.count("unsupported")
        return
    pre_t = [ctx.index(s) for s in get_symbols(tnames)]
    post_spin = "a" * len(tspin) if restricted else tspin
    post_t = [ctx.index(s) for s in get_symbols(tnames, post_spin)] \
        if tnames else []
    adapter.fill_order(pre, pre_t)
    adapter.fill_order(post, post_t)
    c = build.cost([pre, post], ctx.idx, post_t, 2, 2, True)
    if c > build.BUDGET[build.TIER] * 4:
        chk.count("too_expensive_skipped")
        return
    bkn = events.collect_bk(ctx, [(pre, True), (post, False)],
                            getattr(pre_expr, "sym_tensors", ()),
                            getattr(pre_expr, "antisym_tensors", ()))
    ev = {"op": "spin", "key": key, "what": what[:500], "idx": ctx.idx,
          "tgt": post_t, "names": ctx.name_list(),
          "models": spin_models(ctx, bkn, restricted), "pre": pre,
          "post": post,
          "tabhint": build.table_hint([pre, post], ctx, post_t, (2, 2), True),
          "a": {"pretgt": pre_t, "spins": list(tspin),
                "restricted": bool(restricted)},
          "text": {"pre": str(pre_expr)[:400], "post": str(post_expr)[:400]}}
    chk.add_event(ev)
    return ev


def grammar_expr(g, r, targets, spinfree_only):
    kinds = ["VV", "V", "VD", "VVD"] if spinfree_only else \
        ["VM", "VMM", "MM", "VMD", "VX", "MW", "V", "VVM"]
    terms = []
    for _ in range(r.randint(1, 2)):
        k = r.choice(kinds)
        shapes = []
        for ch in k:
            if ch == "V":
                shapes.append(g.obj_shape("V"))
            elif ch == "D":
                shapes.append(g.obj_shape("D"))
            elif ch == "M":
                n_ = r.choice([1, 2, 2])
                shapes.append(dict(kind="M", name=r.choice(["t1", "t2"]),
                                   nu=n_, nl=n_, su=["v"] * n_, sl=["o"] * n_,
                                   bk=0))
            elif ch == "X":
                n_ = r.choice([1, 2])
                shapes.append(dict(kind="M", name="X", nu=n_, nl=n_,
                                   su=["v"] * n_, sl=["o"] * n_, bk=0))
            elif ch == "W":
                shapes.append(dict(kind="A", name="Wq", nu=1, nl=1,
                                   su=[None], sl=[None], bk=0))
        t = g.term(targets, shapes=shapes, trace_prob=0.0)
        if r.random() < 0.2:
            idx = [ix for o in t["objs"] for ix in o["upper"] + o["lower"]]
            x = r.choice(idx)
            c = [y for y in idx if y != x and
                 gen.idx_space(y[0]) == gen.idx_space(x[0])]
            if c:
                t["objs"].append(dict(kind="delta", name="delta",
                                      upper=[x, r.choice(c)], lower=[], exp=1))
        terms.append(t)
    return gen.build_sum(terms)


def run(chk):
    r = random.Random(chk.seed)
    quick = chk.tier == "quick"
    g = gen.Gen(chk.seed, spaces="ov", numbered_prob=0.0)
    n_cases = 60 if quick else 700
    for case in range(n_cases):
        g.new_expression(True)
        restricted = case % 3 == 2
        n_t = r.choice([0, 1, 2, 2, 2])
        targets = g.targets(n=n_t)
        try:
            total = grammar_expr(g, r, targets, spinfree_only=restricted)
        except RuntimeError:
            continue
        if total == 0:
            continue
        tnames = "".join(t[0] for t in targets)
        tsyms = [gen.sym_of(t) for t in targets]
        spins = ["".join(p) for p in itertools.product("ab", repeat=n_t)]
        if len(spins) > 2:
            spins = r.sample(spins, 2 if quick else 4)
        for tspin in spins:
            expand_eri = True if restricted else r.random() < 0.6
            expr = Expr(total, real=True, target_idx=tsyms)
            pre_copy = Expr(expr.sympy, **expr.assumptions)
            what = (f"transform_to_spatial_orbitals({total}, '{tnames}', "
                    f"'{tspin}', restricted={restricted}, "
                    f"expand_eri={expand_eri})")
            res, exc = guarded(transform_to_spatial_orbitals, expr, tnames,
                               tspin, restricted, expand_eri)
            chk.count("transform_calls")
            key = "spin:" + ("restricted" if restricted else "unrestricted")
            if exc:
                if exc["type"] in ("NotImplementedError",):
                    chk.count("refused")
                    continue
                chk.report_direct(key + ":exception", f"{what[:300]} raised "
                                  f"{exc['type']}: {exc['msg']}", exc)
                continue
            ev = spin_event(chk, pre_copy, res, tnames, tspin, restricted,
                            key, what)
            if ev and case % 10 == 0:
                chk.add_sample({"call": what[:300], "post": str(res)[:300]})
        # allowed spin blocks of the expression
        if n_t and case % 2 == 0:
            expr = Expr(total, real=True, target_idx=tsyms)
            res, exc = guarded(allowed_spin_blocks, expr, tnames)
            chk.count("allowed_spin_blocks_calls")
            what = f"allowed_spin_blocks({total}, '{tnames}')"
            if exc:
                if exc["type"] == "RuntimeError" and "Not all indices were" \
                        in exc["msg"]:
                    # documented: only works for closed expressions (all
                    # tensors with known spin blocks)
                    chk.count("refused")
                else:
                    chk.report_direct("spin_blocks:exception", f"{what[:300]} "
                                      f"raised {exc['type']}: {exc['msg']}", exc)
            else:
                ctx = adapter.Ctx()
                try:
                    pre = adapter.project_expr(Expr(total, real=True,
                                                    target_idx=tsyms), ctx)
                except adapter.Unsupported:
                    continue
                tgt = [ctx.index(s) for s in tsyms]
                adapter.fill_order(pre, tgt)
                bkn = events.collect_bk(ctx, [(pre, True)], (tn.eri, tn.fock))
                ev = {"op": "spin_blocks", "key": "spin_blocks",
                      "what": what[:400], "idx": ctx.idx, "tgt": tgt,
                      "names": ctx.name_list(),
                      "models": spin_models(ctx, bkn, False), "pre": pre,
                      "post": [],
                      "tabhint": build.table_hint([pre], ctx, tgt, (2, 2), True),
                      "a": {"allowed": [list(b) for b in res] or [["-"]]},
                      "text": {"pre": str(total)[:300], "post": str(res)}}
                chk.add_event(ev)
    # allowed_spin_blocks with target strings in non-canonical order
    from adcgen.sympy_objects import AntiSymmetricTensor, Amplitude
    i, j, k, a, b, c = get_symbols("ijkabc")
    structured = [
        Amplitude("t1", (a, c), (j, k)) * AntiSymmetricTensor(tn.eri, (k, b), (i, c), 1),
        AntiSymmetricTensor(tn.eri, (i, j), (a, b), 1),
        Amplitude("t1", (a, b), (i, k)) * AntiSymmetricTensor(tn.eri, (k, c), (j, c), 1),
        Amplitude("t2", (a,), (i,)) * Amplitude("t2", (b,), (j,)),
    ]
    orders = ["iajb", "ijab", "aibj", "abij", "jbia", "ibja"]
    # chains of three and four spin-constrained factors: the search for a
    # valid spin combination has to back-track
    d, e, f_, l, m = get_symbols("deflm")
    V_ = lambda p, q, r_, s_: AntiSymmetricTensor(tn.eri, (p, q), (r_, s_), 1)  # noqa
    chains = [
        (Amplitude("t1", (d, e), (j, k)) * V_(a, c, j, d) * V_(k, e, i, b),
         ["iabc", "aibc", "cbai"]),
        (Amplitude("t1", (a, d), (i, k)) * V_(k, l, d, e) *
         Amplitude("t1", (e, b), (l, j)), ["ijab", "iajb", "bjai"]),
        (V_(i, d, a, k) * V_(k, e, d, l) * V_(l, b, e, j), ["iajb", "ijab"]),
        (Amplitude("t1", (a, d), (i, k)) * V_(k, l, d, e) * V_(l, m, e, f_) *
         Amplitude("t1", (f_, b), (m, j)), ["ijab", "iajb"]),
        (Amplitude("t2", (a, d), (i, k)) * V_(k, b, d, c), ["iabc", "abci"]),
    ]
    for x0, tstrs in chains:
        for tstr in (tstrs[:2] if quick else tstrs):
            tsyms = get_symbols(tstr)
            expr = Expr(x0, real=True, target_idx=tsyms)
            res, exc = guarded(allowed_spin_blocks, expr, tstr)
            chk.count("allowed_spin_blocks_calls")
            what = f"allowed_spin_blocks({x0}, '{tstr}')"
            if exc:
                chk.report_direct("spin_blocks:exception", f"{what} raised "
                                  f"{exc['type']}: {exc['msg']}", exc)
                continue
            ctx = adapter.Ctx()
            pre = adapter.project_expr(Expr(x0, real=True, target_idx=tsyms), ctx)
            tgt = [ctx.index(s_) for s_ in tsyms]
            adapter.fill_order(pre, tgt)
            if build.cost([pre], ctx.idx, tgt, 2, 2, True) > 3e7:
                chk.count("too_expensive")
                continue
            bkn = events.collect_bk(ctx, [(pre, True)], (tn.eri, tn.fock))
            chk.add_event({
                "op": "spin_blocks", "key": "spin_blocks:chains", "what": what,
                "idx": ctx.idx, "tgt": tgt, "names": ctx.name_list(),
                "models": spin_models(ctx, bkn, False, seeds=(1,)),
                "pre": pre, "post": [],
                "tabhint": build.table_hint([pre], ctx, tgt, (2, 2), True),
                "a": {"allowed": [list(b_) for b_ in res] or [["-"]]},
                "text": {"pre": str(x0), "post": str(res)}})
    for x0 in structured:
        for tstr in (orders if not quick else r.sample(orders, 3) + ["iajb"]):
            tsyms = get_symbols(tstr)
            expr = Expr(x0, real=True, target_idx=tsyms)
            res, exc = guarded(allowed_spin_blocks, expr, tstr)
            chk.count("allowed_spin_blocks_calls")
            what = f"allowed_spin_blocks({x0}, '{tstr}')"
            if exc:
                chk.report_direct("spin_blocks:exception", f"{what} raised "
                                  f"{exc['type']}: {exc['msg']}", exc)
                continue
            ctx = adapter.Ctx()
            pre = adapter.project_expr(Expr(x0, real=True, target_idx=tsyms), ctx)
            tgt = [ctx.index(s_) for s_ in tsyms]
            adapter.fill_order(pre, tgt)
            bkn = events.collect_bk(ctx, [(pre, True)], (tn.eri, tn.fock))
            ev = {"op": "spin_blocks", "key": "spin_blocks:ordered-targets",
                  "what": what, "idx": ctx.idx, "tgt": tgt,
                  "names": ctx.name_list(),
                  "models": spin_models(ctx, bkn, False, seeds=(1,)),
                  "pre": pre, "post": [],
                  "tabhint": build.table_hint([pre], ctx, tgt, (2, 2), True),
                  "a": {"allowed": [list(b_) for b_ in res] or [["-"]]},
                  "text": {"pre": str(x0), "post": str(res)}}
            chk.add_event(ev)
            # and the integration for a spin string that is only allowed in
            # the given (not the canonical) order
            tspin = r.choice(["aabb", "abab", "abba", "bbaa"])
            expr = Expr(x0, real=True, target_idx=tsyms)
            pre_copy = Expr(expr.sympy, **expr.assumptions)
            res2, exc = guarded(transform_to_spatial_orbitals, expr, tstr,
                                tspin, False, False)
            chk.count("transform_calls")
            if exc:
                chk.report_direct("spin:unrestricted:exception", f"transform("
                                  f"{x0}, '{tstr}', '{tspin}') raised "
                                  f"{exc['type']}: {exc['msg']}", exc)
            else:
                spin_event(chk, pre_copy, res2, tstr, tspin, False,
                           "spin:ordered-targets",
                           f"transform_to_spatial_orbitals({x0}, '{tstr}', "
                           f"'{tspin}')")
    # tensors without known spin blocks: contracted indices that sit only on
    # such tensors take both spins independently (several groups of them in
    # one term), and a term made of such tensors only is not dropped
    Xa = lambda u, l_: Amplitude("X", (u,), (l_,))      # noqa
    Ya = lambda u, l_: Amplitude("Y", (u,), (l_,))      # noqa
    Wq = lambda u, l_: AntiSymmetricTensor("Wq", (u,), (l_,))   # noqa
    t2s = lambda u, l_: Amplitude("t2", (u,), (l_,))    # noqa
    unknown = [
        (t2s(a, i) * Xa(c, k) * Ya(c, k), "ia"),
        (t2s(a, i) * Xa(c, k) * Ya(c, k) * Wq(l, l), "ia"),
        (t2s(a, i) * Xa(c, k) * Ya(c, k) * Xa(d, l) * Ya(d, l), "ia"),
        (V_(i, j, a, b) * Wq(k, l) * Wq(l, k), "ijab"),
        (Xa(c, k) * Ya(c, k), ""),
        (Wq(i, k) * Wq(k, j), "ij"),
        (Xa(a, k) * Wq(k, i), "ia"),
        (Xa(a, i) * Wq(k, k) + t2s(a, i), "ia"),
    ]
    for x0, tstr in unknown:
        tsyms = get_symbols(tstr)
        n_t = len(tsyms)
        spins = ["".join(p_) for p_ in itertools.product("ab", repeat=n_t)]
        if len(spins) > 2:
            spins = r.sample(spins, 2 if quick else 4)
        for tspin in spins:
            expr = Expr(x0, real=True, target_idx=tsyms)
            pre_copy = Expr(expr.sympy, **expr.assumptions)
            what = (f"transform_to_spatial_orbitals({x0}, '{tstr}', "
                    f"'{tspin}', restricted=False, expand_eri=False)")
            res, exc = guarded(transform_to_spatial_orbitals, expr, tstr,
                               tspin, False, False)
            chk.count("transform_calls")
            if exc:
                if exc["type"] in ("NotImplementedError",):
                    chk.count("refused")
                    continue
                chk.report_direct("spin:unknown-tensors:exception",
                                  f"{what} raised {exc['type']}: "
                                  f"{exc['msg']}", exc)
                continue
            spin_event(chk, pre_copy, res, tstr, tspin, False,
                       "spin:unknown-tensors", what)
    # the spin blocks declared for registered intermediates
    avail = Intermediates().available
    for name in (["t2_1", "t1_2", "t2_2", "p0_2_oo", "p0_2_vv"] if quick else
                 ["t2_1", "t1_2", "t2_2", "t3_2", "p0_2_oo", "p0_2_vv",
                  "t2eri_1", "t2eri_3", "t2sq"]):
        it = avail[name]
        idxs = "".join(it.default_idx)
        blocks, exc = guarded(lambda: it.allowed_spin_blocks)
        x, exc2 = guarded(it.expand_itmd, idxs, False, True)
        chk.count("intermediate_spin_blocks")
        if exc or exc2:
            continue
        tsyms = get_symbols(idxs)
        ctx = adapter.Ctx()
        try:
            pre = adapter.project_expr(build.expand_mul(
                Expr(x.sympy, real=True, target_idx=tsyms)), ctx)
        except adapter.Unsupported:
            continue
        tgt = [ctx.index(s) for s in tsyms]
        adapter.fill_order(pre, tgt)
        if build.cost([pre], ctx.idx, tgt, 2, 2, True) > 4e6:
            continue
        bkn = events.collect_bk(ctx, [(pre, True)], (tn.eri, tn.fock))
        ev = {"op": "spin_blocks", "key": f"spin_blocks:itmd:{name}",
              "what": f"Intermediates().{name}.allowed_spin_blocks = {blocks}",
              "idx": ctx.idx, "tgt": tgt, "names": ctx.name_list(),
              "models": spin_models(ctx, bkn, False, seeds=(1,)), "pre": pre,
              "post": [],
              "tabhint": build.table_hint([pre], ctx, tgt, (2, 2), True),
              "a": {"allowed": [list(b) for b in blocks]},
              "text": {"pre": name, "post": str(blocks)}}
        chk.add_event(ev)
    chk.judge(chunk=200)
    if chk.tier != "quick":
        # system-level workflows (spec/Pipeline.tla): the steps that belong
        # to this property's operations
        from .pipeline import run_pipelines
        run_pipelines(chk, "C15")
    return chk.finish(
        rule="seeded sums of ERIs, t-amplitudes, symbolic denominators, "
             "deltas and tensors with unknown spin structure; every (sampled) "
             "target spin string; unrestricted with/without ERI expansion and "
             "restricted (spin-free inputs): TLC compares the integrated "
             "expression on spin-labelled index ranges with the spin-orbital "
             "input at the requested spins for all spatial assignments, on a "
             "2+2 spatial x spin model whose ERI is built from Coulomb "
             "integrals and whose amplitudes vanish on non spin conserving "
             "blocks; allowed_spin_blocks of expressions and registered "
             "intermediates: unreported blocks are identically zero")
