"""C03 - secular matrix blocks vs <I|H-E0|J> over explicit intermediate states."""
from adcgen import (Operators, GroundState, IntermediateStates, SecularMatrix)
from adcgen.expr_container import Expr
from adcgen.indices import get_symbols, split_idx_string, index_space
from adcgen.sympy_objects import NonSymmetricTensor
from adcgen.tensor_names import tensor_names as tn

from .. import adapter, build, events, oracle
from ..runner import guarded
from functools import partial

# derivations are long single calls: their own time limit
guarded = partial(guarded, call_timeout=900)      # DERIVATION

CLS = {"ph": 1, "pphh": 2, "h": 1, "phh": 2, "p": 1, "pph": 2, "hh": 1,
       "phhh": 2, "pp": 1, "pphhh": 0, "ppph": 2}


def roles_of(bra_idx, ket_idx):
    roles, names = [], []
    for side, idx in (("b", bra_idx), ("k", ket_idx)):
        for n in split_idx_string(idx):
            roles.append(side + ("o" if index_space(n) == "occ" else "v"))
            names.append(n)
    return roles, names


def isr_models(names, variant, K, ncls, reqs, sizes, seeds):
    ctx0 = adapter.Ctx(names=names)
    bkn = [0] * len(names)
    for n, v in ((tn.eri, 1), (tn.fock, 1), (tn.sym_orb_denom, -1)):
        bkn[names[n] - 1] = v
    gm = []
    for (no, nv) in sizes:
        for sd in seeds:
            m = events.model(ctx0, noa=no, nva=nv, seed=sd, fock="diag",
                             bkn=bkn, oracle="isr",
                             gs=oracle.gs_record(names, K, 4, with_d=False))
            m["isr"] = {"variant": variant, "K": K, "ncls": ncls, "req": reqs}
            gm.append(m)
    return gm


def run_group(chk, variant, K, requests, sizes, seeds, gs, what_prefix="",
              driver=None):
    """requests: [(order, block, indices, subtract_gs)]; indices without a
    ',' request the matrix-vector product mvp_block_order for the bra space"""
    names = oracle.gs_names(4)
    names.setdefault(tn.right_adc_amplitude, len(names) + 1)
    for k in range(1, len(requests) + 1):
        names[f"Ref{k}"] = len(names) + 1
    isr = IntermediateStates(gs, variant)
    m = SecularMatrix(isr)
    reqs, todo = [], []
    ncls = 1
    for k, (order, block, indices, sub) in enumerate(requests, 1):
        bs, ks = block.split(",")
        mvp = "," not in indices
        bi, ki = (indices, "") if mvp else indices.split(",")
        roles, inames = roles_of(bi, ki)
        ncls = max(ncls, CLS[bs], CLS[ks])
        reqs.append({"nid": names[f"Ref{k}"], "what": "V" if mvp else "M",
                     "order": order, "sub": bool(sub), "roles": roles,
                     "bc": CLS[bs], "kc": CLS[ks],
                     "yn": names[tn.right_adc_amplitude]})
        todo.append((k, order, block, indices, sub, inames))
    gm = isr_models(names, variant, K, ncls, reqs, sizes, seeds)
    refs = [(k + 1, gm[k]["noa"], gm[k]["nva"]) for k in range(len(gm))]
    first = len(chk.events)
    for (k, order, block, indices, sub, inames) in todo:
        if "," not in indices:
            what = (f"SecularMatrix({variant}).mvp_block_order({order}, "
                    f"'{block.split(',')[0]}', '{block}', '{indices}', "
                    f"subtract_gs={sub})")
            res, exc = guarded(m.mvp_block_order, order, block.split(",")[0],
                               block, indices, sub)
        else:
            what = (f"SecularMatrix({variant}).isr_matrix_block({order}, "
                    f"'{block}', '{indices}', subtract_gs={sub})")
            res, exc = guarded(m.isr_matrix_block, order, block, indices, sub)
        chk.count("derivations")
        if exc:
            chk.report_direct(f"isr:{variant}:{block}:{order}:exception",
                              f"{what} raised {exc['type']}: {exc['msg']}", exc)
            continue
        syms = get_symbols(inames)
        ref = NonSymmetricTensor(f"Ref{k}", syms)
        expr = Expr(res, real=True).expand()
        try:
            ev, ctx = build.valpres(ref, expr, op="valpres",
                                    key=f"isr:{variant}:{block}:order{order}",
                                    what=what, tgt_syms=syms, names=names,
                                    global_models=refs)
        except adapter.Unsupported as u:
            chk.machinery_errors.append(f"{what}: {u}")
            continue
        ev["text"]["post"] = ev["text"]["post"][:300]
        chk.add_event(ev)
        chk.add_sample({"request": what, "n_terms": len(ev["post"]),
                        "models": ev["_sizes"]})
    chk.judge_with_header({"op": "globals", "gm": gm}, chk.events[first:])


def run(chk):
    quick = chk.tier == "quick"
    chk.run_mc("MC_Isr", cfg="MC_Isr.cfg", timeout=3000,
               what="explicit intermediate states are orthonormal order by "
                    "order, M symmetric, states orthogonal to the ground state")
    gs = GroundState(Operators("mp"))
    seeds = (1, 2)
    pp = [(0, "ph,ph", "ia,jb", True), (1, "ph,ph", "ia,jb", True),
          (2, "ph,ph", "ia,jb", True), (1, "ph,pphh", "ia,jkbc", True),
          (1, "pphh,ph", "ijab,kc", True), (0, "pphh,pphh", "ijab,klcd", True),
          (1, "pphh,pphh", "ijab,klcd", True), (2, "ph,ph", "ia,jb", False),
          (0, "ph,pphh", "ia,jkbc", True),
          # matrix-vector products
          (1, "ph,ph", "ia", True), (2, "ph,ph", "ia", True),
          (1, "ph,pphh", "ia", True), (1, "pphh,ph", "ijab", True),
          (0, "pphh,pphh", "ijab", True)]
    ip = [(0, "h,h", "i,j", True), (1, "h,h", "i,j", True),
          (2, "h,h", "i,j", True), (1, "h,phh", "i,jka", True),
          (0, "phh,phh", "ija,klb", True), (1, "phh,h", "ija,k", True),
          (1, "h,phh", "i", True), (1, "phh,h", "ija", True),
          (2, "h,h", "i", True),
          # a coupling block at second order: the lower-class projections of
          # the precursor states with second-order ground-state terms
          (2, "h,phh", "i,jka", True)]
    ea = [(0, "p,p", "a,b", True), (1, "p,p", "a,b", True),
          (2, "p,p", "a,b", True), (1, "p,pph", "a,ibc", True),
          (0, "pph,pph", "iab,jcd", True), (1, "p,pph", "a", True),
          (1, "pph,p", "iab", True)]
    if not quick:
        pp += [(2, "ph,pphh", "ia,jkbc", True), (2, "pphh,ph", "ijab,kc", True),
               (1, "pphh,pphh", "ijab,klcd", False), (3, "ph,ph", "ia,jb", True)]
        ip += [(3, "h,h", "i,j", True), (2, "phh,h", "ija,k", True),
               (1, "phh,phh", "ija,klb", True), (2, "h,h", "i,j", False)]
        ea += [(3, "p,p", "a,b", True), (2, "p,pph", "a,ibc", True),
               (1, "pph,pph", "iab,jcd", True)]
    K = 2 if quick else 3
    run_group(chk, "pp", K, pp, [(3, 3), (3, 2), (2, 2)], seeds, gs)
    run_group(chk, "ip", K, ip, [(3, 3), (3, 2), (2, 2)], seeds, gs)
    run_group(chk, "ea", K, ea, [(3, 3), (2, 3), (2, 2)], seeds, gs)
    if not quick:
        run_group(chk, "dip", 2, [(0, "hh,hh", "ij,kl", True),
                                  (1, "hh,hh", "ij,kl", True),
                                  (2, "hh,hh", "ij,kl", True)],
                  [(3, 2), (3, 3)], seeds, gs)
        run_group(chk, "dea", 2, [(0, "pp,pp", "ab,cd", True),
                                  (1, "pp,pp", "ab,cd", True),
                                  (2, "pp,pp", "ab,cd", True)],
                  [(2, 3), (3, 3)], seeds, gs)
    # the pure helper functions behind this property (spec/Helpers.tla)
    from .helpers import run_helpers
    run_helpers(chk, ('bord',))
    return chk.finish(
        rule="each secular-matrix block request (variant, order, block, "
             "indices, subtract_gs) is one event; TLC evaluates the derived "
             "block for every bra/ket index assignment (non-canonical orders "
             "and coinciding indices included) with amplitude tables from "
             "RSPT and compares with the order coefficient of <I|H-E0|J> "
             "over intermediate states constructed explicitly in determinant "
             "space (spec/Isr.tla)")
