"""C10 - reported permutational symmetries are true; decompositions lossless."""
import random

from sympy import Add

from adcgen import sort_expr as sort
from adcgen.expr_container import Expr
from adcgen.indices import get_symbols
from adcgen.simplify import filter_tensor
from adcgen.tensor_names import tensor_names as tn

from .. import adapter, build, events, gen
from ..runner import guarded


def models_for(ctx, sides, tgt, bkn, max_models=1, sizes=None):
    szs = build.pick_sizes(sides, ctx.idx, tgt, build.BUDGET[build.TIER],
                           max_models=max_models, sizes=sizes)
    return szs, [events.model(ctx, noa=szs[0][0], nva=szs[0][1], seed=sd,
                              bkn=bkn) for sd in (1, 2)]


def perms_rec(ctx, perms):
    return [[ctx.index(p), ctx.index(q)] for p, q in perms]


def symmetry_case(chk, g, r):
    g.new_expression(False)
    targets = g.targets(n=r.choice([0, 1, 2, 2]))
    t = g.term(targets, kinds=r.choice(["AAV", "VVM", "AAS", "MMV", "aaN",
                                        "VD", "AVD", "SSN"]),
               n_obj=r.choice([1, 2, 2, 3]), trace_prob=0.05)
    if r.random() < 0.15:
        o = r.choice(t["objs"])
        if o["kind"] in ("A", "S", "N", "M"):
            o["exp"] = 2
    term = gen.build_term(t)
    if term == 0:
        return
    tsyms = [gen.sym_of(x) for x in targets]
    explicit = r.random() < 0.5
    expr = Expr(term, target_idx=tsyms) if explicit else Expr(term)
    if len(expr) != 1:
        return
    tm = expr.terms[0]
    mode = r.choice(["all", "only_contracted", "only_target", "obj"])
    if mode == "all":
        # Term.symmetry() enumerates permutations of ALL index occurrences
        # (super-exponential): only small terms
        per = {}
        for s_ in tm.idx:
            per[s_.space_and_spin] = per.get(s_.space_and_spin, 0) + 1
        if max(per.values(), default=0) > 5:
            mode = "only_contracted"
    what = f"Term({term}).symmetry({mode})"
    if mode == "obj":
        objs = [o for o in tm.objects if not o.sympy.is_number]
        ob = r.choice(objs)
        res, exc = guarded(ob.symmetry)
        what = f"Obj({ob.sympy}).symmetry()"
        target_expr = Expr(ob.sympy)
    else:
        res, exc = guarded(tm.symmetry, mode == "only_contracted",
                           mode == "only_target")
        target_expr = expr
    chk.count("symmetry_calls")
    if exc:
        chk.report_direct("symmetry:exception", f"{what} raised {exc['type']}: "
                          f"{exc['msg']}", exc)
        return
    if not res:
        chk.count("no_symmetry_reported")
        return
    ctx = adapter.Ctx()
    try:
        pre = adapter.project_expr(target_expr, ctx)
    except adapter.Unsupported:
        return
    if len(pre) != 1:
        return
    tgt = sorted(set(adapter.term_indices(pre[0])))
    if len(tgt) > 7:
        chk.count("too_many_indices_skipped")
        return
    adapter.fill_order(pre, tgt)
    syms = [{"ps": perms_rec(ctx, perms), "f": int(f)}
            for perms, f in res.items()]
    bkn = events.collect_bk(ctx, [(pre, True)])
    szs, models = models_for(ctx, [pre], tgt, bkn, sizes=[(2, 2)])
    ev = {"op": "symmetry", "key": f"symmetry:{mode}", "what": what[:400],
          "idx": ctx.idx, "tgt": tgt, "names": ctx.name_list(),
          "models": models, "pre": pre, "post": [],
          "tabhint": [[] for _ in ctx.names], "a": {"syms": syms},
          "text": {"pre": str(term)[:300], "post": str(res)[:500]}}
    chk.add_event(ev)
    if chk.counters["symmetry_calls"] % 40 == 1:
        chk.add_sample({"call": what[:300], "reported": str(res)[:300]})


def denom_symmetry_cases(chk, g, r, quick):
    """EriOrbenergy.denom_eri_sym: the common symmetry of the remainder and
    the orbital-energy denominator, judged at summand level"""
    from adcgen.eri_orbenergy import EriOrbenergy
    from adcgen.indices import get_symbols
    from adcgen.sympy_objects import (AntiSymmetricTensor, NonSymmetricTensor,
                                      Amplitude)
    from . import c13
    i, j, a, b = get_symbols("ijab")

    def E(s_):
        return NonSymmetricTensor(tn.orb_energy, (s_,))
    V_ = AntiSymmetricTensor(tn.eri, (i, j), (a, b), 0)
    X_ = Amplitude("X", (a, b), (i, j))
    W_ = AntiSymmetricTensor("Wq", (a,), (b,), 0)
    cases = [
        V_ / (E(i) - E(j)),                       # remainder odd, bracket odd
        V_ / (E(a) + E(b) - E(i) - E(j)),         # odd / even
        V_ * X_ / (E(i) - E(j)),                  # even / odd
        V_ / ((E(i) - E(j)) * (E(a) - E(b))),     # odd in ij and in ab
        V_ * W_ / ((E(i) - E(j)) ** 2 * (E(a) + E(b) - E(i) - E(j))),
        V_ / ((E(i) - E(j)) ** 3),
        X_ * W_ / (E(a) - E(b)),
    ]
    for _ in range(10 if quick else 100):
        g.new_expression(True)
        try:
            t = c13.fraction_term(g, r, [])
        except RuntimeError:
            continue
        if t is not None and t != 0:
            cases.append(t)
    for term in cases:
        expr = Expr(term)
        if len(expr) != 1:
            continue
        eo, exc = guarded(EriOrbenergy, expr.terms[0])
        if exc:
            continue
        res, exc = guarded(eo.denom_eri_sym)
        chk.count("symmetry_calls")
        what = f"EriOrbenergy({term}).denom_eri_sym()"
        if exc:
            if exc["type"] == "NotImplementedError":
                continue
            chk.report_direct("symmetry:exception", f"{what} raised "
                              f"{exc['type']}: {exc['msg']}", exc)
            continue
        res = {k: v for k, v in res.items() if v is not None}
        if not res:
            continue
        # the fraction without its numerator: remainder / denominator
        frac_expr = Expr(eo.eri.sympy / eo.denom.sympy)
        ctx = adapter.Ctx()
        try:
            pre = adapter.project_expr(frac_expr, ctx)
        except adapter.Unsupported:
            continue
        if len(pre) != 1:
            continue
        tgt = sorted(set(adapter.term_indices(pre[0])))
        if len(tgt) > 7:
            continue
        adapter.fill_order(pre, tgt)
        syms = [{"ps": perms_rec(ctx, perms), "f": int(f)}
                for perms, f in res.items()]
        bkn = events.collect_bk(ctx, [(pre, True)])
        szs, models = models_for(ctx, [pre], tgt, bkn, sizes=[(2, 2)])
        chk.add_event({
            "op": "symmetry", "key": "symmetry:denom_eri_sym",
            "what": what[:400], "idx": ctx.idx, "tgt": tgt,
            "names": ctx.name_list(), "models": models, "pre": pre,
            "post": [], "tabhint": [[] for _ in ctx.names],
            "a": {"syms": syms},
            "text": {"pre": str(term)[:300], "post": str(res)[:500]}})


def antisym_sum(g, r, targets, pairs):
    terms = [g.term(targets, kinds=r.choice(["AAN", "AVM", "VMf", "ANN",
                                             "VD", "MVD"]),
                    n_obj=r.choice([1, 2, 2, 3]), trace_prob=0.05)
             for _ in range(r.randint(1, 3))]
    total = gen.build_sum(terms)
    for (x, y, f) in pairs:
        sx, sy = gen.sym_of(x), gen.sym_of(y)
        total = total + f * total.subs({sx: sy, sy: sx}, simultaneous=True)
    return total.expand()


def decomp_event(chk, pre_expr, parts, tsyms, key, what, sorter="none",
                 nid_name=None):
    """parts: [(perm list [(perms, f)], Expr, key tuple)]"""
    ctx = adapter.Ctx()
    try:
        pre = adapter.project_expr(pre_expr, ctx)
        prj = [(adapter.project_expr(x, ctx), pl, k) for pl, x, k in parts]
    except adapter.Unsupported:
        chk.count("unsupported")
        return
    tgt = sorted(ctx.index(s) for s in tsyms)
    sides = [pre] + [p[0] for p in prj]
    for s_ in sides:
        adapter.fill_order(s_, tgt)
    recs = []
    import re as _re
    byname = {(ix["n"], ix["p"]): n_ + 1 for n_, ix in enumerate(ctx.idx)}

    def ids_of(entry):
        """key entry made of index names -> index ids (syntactic)"""
        if entry == "none":
            return []
        if entry.startswith("no_"):
            return [-1]
        out = []
        for m_ in _re.finditer(r"([a-z]\d*)(?:_([ab]))?", entry):
            out.append(byname.get((m_.group(1), m_.group(2) or ""), 0))
        return out
    for x, pl, k in prj:
        recs.append({"x": x,
                     "perms": [{"ps": perms_rec(ctx, perms), "f": int(f)}
                               for perms, f in pl],
                     "key": [list(s) for s in k] or [list("none")],
                     "kids": [ids_of(s) for s in k] or [[]]})
    bkn = events.collect_bk(ctx, [(pre, True)] + [(p[0], False) for p in prj],
                            getattr(pre_expr, "sym_tensors", ()),
                            getattr(pre_expr, "antisym_tensors", ()))
    szs, models = models_for(ctx, sides, tgt, bkn)
    ev = {"op": "decomposition", "key": key, "what": what[:400],
          "idx": ctx.idx, "tgt": tgt, "names": ctx.name_list(),
          "models": models, "pre": pre, "post": [],
          "tabhint": build.table_hint(sides, ctx, tgt, szs[0], False),
          "a": {"parts": recs, "sorter": sorter,
                "nid": ctx.names.get(nid_name, 0) if nid_name else 0},
          "text": {"pre": str(pre_expr)[:400],
                   "post": str([(str(pl), str(x)[:100]) for pl, x, k in parts])[:600]}}
    chk.add_event(ev)


def exploit_case(chk, g, r):
    g.new_expression(True)
    n_t = r.choice([2, 2, 4, 4, 3])
    targets = [("i", ""), ("j", ""), ("a", ""), ("b", "")] if n_t == 4 else \
        g.targets(n=n_t)
    same = [(x, y) for x in targets for y in targets
            if x < y and gen.idx_space(x[0]) == gen.idx_space(y[0])]
    pairs = [(x, y, r.choice([1, -1])) for x, y in
             r.sample(same, min(len(same), r.randint(0, 2)))]
    try:
        total = antisym_sum(g, r, targets, pairs)
    except RuntimeError:
        return
    if total == 0:
        return
    tnames = [t[0] for t in targets]
    order = list(tnames)
    r.shuffle(order)
    sep = r.random() < 0.5 and len(order) % 2 == 0
    tstr = "".join(order[:len(order) // 2]) + "," + \
        "".join(order[len(order) // 2:]) if sep else "".join(order)
    if r.random() < 0.2:
        tstr = None
    bk = r.choice([0, 0, 1, -1]) if sep else 0
    anti = r.random() < 0.7
    exploit_call(chk, total, tnames, tstr, bk, anti)


def exploit_call(chk, total, tnames, tstr, bk, anti):
    tsyms = get_symbols(tnames)
    expr = Expr(total, real=True, target_idx=tsyms)
    pre_copy = Expr(expr.sympy, **expr.assumptions)
    what = (f"exploit_perm_sym({total}, '{tstr}', bra_ket_sym={bk}, "
            f"antisymmetric_result_tensor={anti})")
    res, exc = guarded(sort.exploit_perm_sym, expr, tstr, None, bk, anti)
    chk.count("exploit_perm_sym_calls")
    if exc:
        if exc["type"] == "NotImplementedError":
            chk.count("refused")
            return
        chk.report_direct("exploit_perm_sym:exception", f"{what[:300]} raised "
                          f"{exc['type']}: {exc['msg']}", exc)
        return
    parts = [(list(k), v, ()) for k, v in res.items()]
    decomp_event(chk, pre_copy, parts, tsyms, "exploit_perm_sym", what)
    if chk.counters["exploit_perm_sym_calls"] % 25 == 1:
        chk.add_sample({"call": what[:300],
                        "keys": [str(k) for k in res][:5]})


def exploit_orbits(chk, r, quick):
    """Orbits of length three (three target indices of one space, terms that
    are (anti)symmetric in two of them) and incomplete orbits (three of the
    four members of a P_ij / P_ab orbit): a member must not be counted twice."""
    from adcgen.sympy_objects import NonSymmetricTensor, AntiSymmetricTensor
    i, j, k, a, b, c = get_symbols("ijkabc")
    n1 = lambda *x: NonSymmetricTensor("n1", x)     # noqa
    n2 = lambda *x: NonSymmetricTensor("n2", x)     # noqa
    G = lambda p, q: AntiSymmetricTensor("Gq", (p, q), ())   # noqa
    cases = [
        (n1(i) * n1(j) * n2(k) + n1(i) * n1(k) * n2(j) + n1(j) * n1(k) * n2(i),
         "ijk", False),
        (n1(a) * n1(b) * n2(c) + n1(a) * n1(c) * n2(b) + n1(b) * n1(c) * n2(a),
         "abc", False),
        (G(i, j) * n2(k) - G(i, k) * n2(j) + G(j, k) * n2(i), "ijk", True),
        (n1(i) * n1(j) * n2(k) + n1(i) * n1(k) * n2(j), "ijk", False),
        (G(a, b) * n2(c) - G(a, c) * n2(b), "abc", True),
        # three of the four members of the P_ij / P_ab orbit of n1_ia n2_jb
        (n1(i, a) * n2(j, b) - n1(j, a) * n2(i, b) - n1(i, b) * n2(j, a),
         "ijab", True),
        (n1(i, a) * n2(j, b) - n1(j, a) * n2(i, b) + n1(j, b) * n2(i, a),
         "ijab", True),
        (n1(i, a) * n2(j, b) + n1(j, a) * n2(i, b) + n1(i, b) * n2(j, a),
         "ijab", False),
        (n1(i, a) * n2(j, b) - n1(j, a) * n2(i, b) - n1(i, b) * n2(j, a)
         + n1(j, b) * n2(i, a), "ijab", True),
    ]
    n3 = lambda *x: NonSymmetricTensor("n3", x)     # noqa
    # terms related by three-cycles only (no transposition maps one onto
    # another): the map of P_ij P_ik is not the map of P_ik P_ij
    cyc = n1(i) * n2(j) * n3(k) + n1(j) * n2(k) * n3(i) + n1(k) * n2(i) * n3(j)
    cyc2 = n1(i) * n2(j) * n3(k) + n1(j) * n2(k) * n3(i)
    cyc3 = n1(a) * n2(b) * n3(c) + n1(c) * n2(a) * n3(b)
    cases += [(cyc, "ijk", False), (cyc, "ijk", True), (cyc2, "ijk", True),
              (cyc2, "ijk", False), (cyc3, "abc", True), (cyc3, "abc", False)]
    for total, tn_, anti in cases:
        orders = [tn_] if quick else \
            [tn_, "".join(r.sample(list(tn_), len(tn_)))]
        for tstr in orders:
            exploit_call(chk, total, list(tn_), tstr, 0, anti)
            chk.count("orbit_cases")


def sort_case(chk, g, r):
    g.new_expression(False)
    targets = g.targets(n=r.choice([0, 1, 2]))
    terms = []
    for _ in range(r.randint(2, 5)):
        try:
            t = g.term(targets, kinds=r.choice(["VVf", "VfA", "AVM", "VN"]),
                       n_obj=r.choice([1, 2, 3]))
        except RuntimeError:
            return
        if r.random() < 0.4:
            idx = [ix for o in t["objs"] for ix in o["upper"] + o["lower"]]
            if len(idx) >= 2:
                x = r.choice(idx)
                c = [y for y in idx if y != x and
                     gen.idx_space(y[0]) == gen.idx_space(x[0])]
                if c:
                    t["objs"].append(dict(kind="delta", name="delta",
                                          upper=[x, r.choice(c)], lower=[],
                                          exp=1))
        if r.random() < 0.15:
            for o in t["objs"]:
                if o["name"] == tn.eri:
                    o["exp"] = 2
                    break
        terms.append(t)
    total = gen.build_sum(terms)
    if total == 0:
        return
    tsyms = [gen.sym_of(x) for x in targets]
    expr = Expr(total, target_idx=tsyms)
    name = r.choice([tn.eri, tn.fock])
    which = r.choice(["by_tensor_block", "by_delta_types", "by_delta_indices",
                      "by_tensor_target_block", "by_tensor_target_indices",
                      "filter_tensor"])
    pre_copy = Expr(expr.sympy, **expr.assumptions)
    if which == "filter_tensor":
        strict = r.choice(["low", "medium", "high"])
        tl = r.choice([[name], [name, name], [tn.eri, tn.fock]])
        keep, exc = guarded(filter_tensor, expr, tl, strict)
        what = f"filter_tensor({total}, {tl}, strict={strict})"
        chk.count("sort_calls")
        if exc:
            chk.report_direct("filter_tensor:exception", f"{what[:300]} raised "
                              f"{exc['type']}: {exc['msg']}", exc)
            return
        # kept + dropped = original (dropped computed by the complement of
        # the kept terms: value clause on kept + (original - kept))
        rest = Expr(pre_copy.sympy - keep.sympy, **pre_copy.assumptions)
        parts = [([], keep, ()), ([], rest, ())]
        # every kept term must be a term of the original
        orig = set(pre_copy.sympy.args) if isinstance(pre_copy.sympy, Add) \
            else {pre_copy.sympy}
        kept = set(keep.sympy.args) if isinstance(keep.sympy, Add) \
            else ({keep.sympy} if keep.sympy != 0 else set())
        if not kept <= orig:
            chk.report_direct("filter_tensor:new-term", f"{what[:300]} returned"
                              " a term that is not in the input", {})
            return
        decomp_event(chk, pre_copy, parts, tsyms, "filter_tensor", what)
        return
    fn = getattr(sort, which)
    args = (expr, name) if "tensor" in which else (expr,)
    res, exc = guarded(fn, *args)
    what = f"sort.{which}({total}" + (f", '{name}')" if "tensor" in which else ")")
    chk.count("sort_calls")
    if exc:
        chk.report_direct(f"{which}:exception", f"{what[:300]} raised "
                          f"{exc['type']}: {exc['msg']}", exc)
        return
    parts = [([], v, tuple(k)) for k, v in res.items()]
    decomp_event(chk, pre_copy, parts, tsyms, which, what,
                 sorter=which, nid_name=name)


def run(chk):
    r = random.Random(chk.seed)
    quick = chk.tier == "quick"
    g = gen.Gen(chk.seed, spaces="ov", numbered_prob=0.05)
    for _ in range(200 if quick else 3000):
        try:
            symmetry_case(chk, g, r)
        except RuntimeError:
            pass
    denom_symmetry_cases(chk, g, r, quick)
    for _ in range(80 if quick else 800):
        exploit_case(chk, g, r)
    exploit_orbits(chk, r, quick)
    for _ in range(80 if quick else 800):
        sort_case(chk, g, r)
    chk.judge(chunk=400)
    return chk.finish(
        rule="(1) Term.symmetry (all / only_contracted / only_target), "
             "EriOrbenergy.denom_eri_sym (remainder x orbital-energy "
             "denominators, also brackets that are odd under an exchange) and "
             "Obj.symmetry on seeded terms (repeated tensors, symbolic "
             "denominators, squares): every reported (permutation, +-1) is "
             "checked by TLC at summand level for all index assignments; (2) "
             "exploit_perm_sym on (anti)symmetrised sums with random target "
             "strings, bra-ket symmetry and result kinds: sum over keys of "
             "(1 + sum f P) part = original; (3) sort.by_* and filter_tensor: "
             "parts sum to the original and terms satisfy their key")
