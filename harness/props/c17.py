"""C17 - generated contraction code evaluates to the expression."""
import random

from sympy import Add, Symbol, Rational, sqrt

from adcgen.expr_container import Expr
from adcgen.generate_code import generate_code
from adcgen.generate_code.generate_code import (translate_adcc_names,
                                                translate_libadc_names)
from adcgen.indices import get_symbols
from adcgen.sympy_objects import (KroneckerDelta, SymbolicTensor, Amplitude,
                                  SymmetricTensor, AntiSymmetricTensor,
                                  NonSymmetricTensor)

from .. import adapter, build, events, gen, codeparse
from ..runner import guarded


def name_table(exprs, ctx, backend):
    names, symbols, clash = {}, {}, []
    for ex in exprs:
        for term in ex.terms:
            for o in term.objects:
                if o.sympy.is_number:
                    continue
                base = o.base
                if isinstance(base, Symbol) and not hasattr(base, "space"):
                    symbols[base.name] = ctx.name(base.name)
                    continue
                if not isinstance(base, (SymbolicTensor, KroneckerDelta)):
                    continue
                ln = o.longname()
                code = translate_adcc_names(ln, o.idx) if backend == "einsum" \
                    else translate_libadc_names(ln, o.idx)
                block = "".join(s.space[0] for s in o.idx)
                if isinstance(base, KroneckerDelta):
                    rec = {"k": "D", "nid": 0, "nu": 2, "nl": 0}
                else:
                    kind = "M" if isinstance(base, Amplitude) else \
                        "S" if isinstance(base, SymmetricTensor) else \
                        "A" if isinstance(base, AntiSymmetricTensor) else "N"
                    if kind == "N":
                        nu, nl = len(base.indices), 0
                    else:
                        nu, nl = len(base.upper), len(base.lower)
                    rec = {"k": kind, "nid": ctx.name(base.name), "nu": nu,
                           "nl": nl}
                rec["block"] = list(block) if code.endswith(block) and block \
                    else []
                if code in names and {k: v for k, v in names[code].items()
                                      if k != "block"} != \
                        {k: v for k, v in rec.items() if k != "block"}:
                    clash.append(code)
                names[code] = rec
    return names, symbols, clash


def make_expr(g, r, targets, antisym_pairs):
    """sum of grammar terms; optionally antisymmetrised in target pairs so
    that generate_code finds permutation operators"""
    terms = []
    for _ in range(r.randint(1, 3)):
        t = g.term(targets, kinds=r.choice(["AAN", "AVM", "VMf", "ANN", "SSA",
                                            "MM", "fV"]),
                   n_obj=r.choice([1, 2, 2, 3]), trace_prob=0.1)
        if r.random() < 0.2:
            o = r.choice(t["objs"])
            if o["kind"] in ("N", "A", "M") and r.random() < 0.5:
                o["exp"] = 2
        terms.append(t)
    total = gen.build_sum(terms)
    for (x, y) in antisym_pairs:
        sx, sy = gen.sym_of(x), gen.sym_of(y)
        total = total - total.subs({sx: sy, sy: sx}, simultaneous=True)
    return total


def run(chk):
    r = random.Random(chk.seed)
    quick = chk.tier == "quick"
    g = gen.Gen(chk.seed, spaces="ov", numbered_prob=0.05)
    n_cases = 120 if quick else 1500
    for case in range(n_cases):
        g.new_expression(False)
        n_t = r.choice([0, 1, 2, 2, 4, 4, 3, 3])
        cyclic = False
        if n_t == 4:
            targets = [("i", ""), ("j", ""), ("a", ""), ("b", "")]
        elif n_t == 3:
            # three targets of one space: terms related by cyclic (non
            # commuting) products of transpositions
            targets = r.choice([[("i", ""), ("j", ""), ("k", "")],
                                [("a", ""), ("b", ""), ("c", "")]])
            cyclic = True
        else:
            targets = g.targets(n=n_t)
        same = [(x, y) for x in targets for y in targets
                if x < y and gen.idx_space(x[0]) == gen.idx_space(y[0])]
        pairs = [r.choice(same)] if same and r.random() < 0.5 else []
        try:
            if cyclic:
                base = gen.build_term(g.term(targets, kinds="NNA", n_obj=r.choice([2, 3]),
                                             trace_prob=0.0))
                s1, s2, s3 = [gen.sym_of(t) for t in targets]
                cyc = {s1: s2, s2: s3, s3: s1}
                once = base.subs(cyc, simultaneous=True)
                twice = once.subs(cyc, simultaneous=True)
                total = base + r.choice([1, -1]) * once
                if r.random() < 0.4:
                    total += r.choice([1, -1]) * twice
                pairs = []
            else:
                total = make_expr(g, r, targets, pairs)
        except RuntimeError:
            continue
        if total == 0:
            continue
        if r.random() < 0.15:
            total = total * Symbol("c1")
        if r.random() < 0.1:
            total = total * sqrt(2)
        total = total.expand()
        tnames = [t[0] for t in targets]
        order = list(tnames)
        r.shuffle(order)
        sep = r.random() < 0.4 and len(order) >= 2 and len(order) % 2 == 0
        tstr = "".join(order[:len(order) // 2]) + "," + \
            "".join(order[len(order) // 2:]) if sep else "".join(order)
        bk = r.choice([0, 0, 1, -1]) if sep else 0
        anti = r.random() < 0.8
        backend = r.choice(["einsum", "libtensor"])
        optimize = r.random() < 0.8
        kw = dict(target_indices=tstr, bra_ket_sym=bk,
                  antisymmetric_result_tensor=anti, backend=backend,
                  optimize_contraction_scheme=optimize)
        if r.random() < 0.2:
            kw["max_itmd_dim"] = r.choice([3, 4])
        tsyms = get_symbols(order)
        tspin = None
        if tsyms and r.random() < 0.25:
            # spin-labelled variant: every index gets a spin, the targets'
            # spins are passed as target_spin
            from adcgen.indices import Index
            smap = {s_: get_symbols(s_.name, r.choice("ab"))[0]
                    for s_ in sorted(total.atoms(Index), key=str)}
            total = total.subs(smap, simultaneous=True)
            tsyms = [smap.get(s_, s_) for s_ in tsyms]
            if any(not s_.spin for s_ in tsyms):
                continue
            tspin = "".join(s_.spin for s_ in tsyms)
            kw["target_spin"] = tspin[:len(order) // 2] + "," + \
                tspin[len(order) // 2:] if sep else tspin
            chk.count("spin_labelled_cases")
        expr = Expr(total, target_idx=tsyms) if tsyms else Expr(total)
        pre_copy = Expr(expr.sympy, **expr.assumptions)
        what = f"generate_code({total}, {kw})"
        code, exc = guarded(generate_code, expr, **kw)
        chk.count("generate_code_calls")
        key = "generate_code:" + backend
        if exc:
            if exc["type"] in ("NotImplementedError",):
                chk.count("refused_not_implemented")
                continue
            if exc["type"] == "RuntimeError" and "max_itmd_dim" in kw:
                chk.count("refused_limits")
                continue
            chk.report_direct(key + ":exception", f"{what[:400]} raised "
                              f"{exc['type']}: {exc['msg']}", exc)
            continue
        ctx = adapter.Ctx()
        try:
            pre = adapter.project_expr(pre_copy, ctx)
        except adapter.Unsupported:
            chk.count("unsupported")
            continue
        tgt = [ctx.index(s) for s in tsyms]
        adapter.fill_order(pre, tgt)
        from adcgen.sort_expr import exploit_perm_sym
        subs, exc2 = guarded(exploit_perm_sym, Expr(total, target_idx=tsyms)
                             if tsyms else Expr(total), tstr,
                             kw.get("target_spin"), bk, anti)
        pool = [pre_copy] + (list(subs.values()) if subs else [])
        names, symbols, clash = name_table(pool, ctx, backend)
        if clash:
            chk.report_direct(key + ":name-clash", f"{what[:300]}: code name "
                              f"{clash} denotes different tensors", {})
            continue

        class IdxMap(dict):
            def __missing__(self, n):
                s = get_symbols(n)[0]
                self[n] = ctx.index(s)
                return self[n]
        spin = build.has_spin(ctx)
        idxmap = IdxMap()
        ambiguous = False
        for k, ix in enumerate(ctx.idx, 1):
            if ix["n"] in idxmap:
                ambiguous = True
            idxmap[ix["n"]] = k
        if ambiguous:
            chk.count("ambiguous_index_names")
            continue
        try:
            prog = codeparse.parse_program(code, names, symbols, idxmap,
                                           backend)
        except (codeparse.CodeParseError, KeyError) as u:
            chk.report_direct(key + ":unparsable", f"{what[:300]}: emitted "
                              f"text can not be parsed ({u}):\n{code[:500]}",
                              {"code": code})
            continue
        bkn = events.collect_bk(ctx, [(pre, True)])
        szs = build.pick_sizes([pre], ctx.idx, tgt, build.BUDGET[build.TIER],
                               spin=spin, max_models=1)
        models = [events.model(ctx, noa=szs[0][0], nva=szs[0][1],
                               nob=szs[0][0] if spin else 0,
                               nvb=szs[0][1] if spin else 0, seed=sd,
                               bkn=bkn) for sd in (1, 2)]
        ev = {"op": "generate_code", "key": key, "what": what[:600],
              "idx": ctx.idx, "tgt": sorted(tgt), "names": ctx.name_list(),
              "models": models, "pre": pre, "post": [],
              "tabhint": build.table_hint([pre], ctx, tgt, szs[0], spin),
              "a": {"prog": prog, "target": tgt, "backend": backend},
              "text": {"pre": str(total)[:500], "post": code[:1500]}}
        chk.add_event(ev)
        if case % 15 == 0:
            chk.add_sample({"call": what[:300], "code": code[:600]})
    chk.judge(chunk=300)
    if chk.tier != "quick":
        # system-level workflows (spec/Pipeline.tla): the steps that belong
        # to this property's operations
        from .pipeline import run_pipelines
        run_pipelines(chk, "C17")
    return chk.finish(
        rule="seeded sums of 1-3 terms (all tensor kinds, squares, traces, "
             "symbols, sqrt prefactors, optional antisymmetrisation in a "
             "target pair), random target orders with / without bra-ket "
             "separator, bra_ket_sym 0/+1/-1, symmetric / antisymmetric "
             "result, both backends, optimised / unoptimised scheme, "
             "max_itmd_dim; the emitted text is parsed (syntactically) and "
             "TLC interprets it (spec/Codegen.tla: einsum positional and "
             "libtensor label semantics, permutation operators, prefactors, "
             "block names) and compares with Val(expression) for all target "
             "assignments")
