"""C13 - orbital-energy fraction algebra and Fock (block-)diagonalisation."""
import random

from sympy import Add, Mul, Pow, Rational

from adcgen.eri_orbenergy import EriOrbenergy
from adcgen.expr_container import Expr
from adcgen.reduce_expr import factor_eri_parts, factor_denom
from adcgen.sympy_objects import NonSymmetricTensor, AntiSymmetricTensor
from adcgen.tensor_names import tensor_names as tn

from .. import adapter, build, gen
from ..runner import guarded


def e_(ix):
    return NonSymmetricTensor(tn.orb_energy, (gen.sym_of(ix),))


def bracket(virt, occ):
    return Add(*[e_(x) for x in virt], *[-e_(x) for x in occ])


def fraction_term(g, r, targets, kind_choices=("VV", "VM", "VVM", "Vf", "AV", "MM"),
                  n_obj=None):
    """remainder tensors x numerator x denominators; returns sympy term and
    the list of brackets"""
    base = g.term(targets, kinds=r.choice(list(kind_choices)),
                  n_obj=n_obj or r.randint(1, 3))
    idx = []
    for ix in gen.term_index_list(base):
        if ix not in idx:
            idx.append(ix)
    occ = [x for x in idx if gen.idx_space(x[0]) == "o"]
    virt = [x for x in idx if gen.idx_space(x[0]) == "v"]
    if not occ or not virt:
        return None
    brackets = []
    for _ in range(r.randint(1, 3)):
        k = r.randint(1, min(2, len(occ), len(virt)))
        b = (r.sample(virt, k), r.sample(occ, k))
        if b not in brackets:
            brackets.append(b)
    denom = Mul(*[Pow(bracket(v, o), -r.choice([1, 1, 2])) for v, o in brackets])
    mode = r.random()
    if mode < 0.25:
        num = 1
    elif mode < 0.6:
        # a combination of the brackets (cancellation can do something)
        num = Add(*[r.choice([1, 1, 2, -1]) * bracket(v, o)
                    for v, o in r.sample(brackets, r.randint(1, len(brackets)))])
        if r.random() < 0.3:
            num += r.choice([1, -1]) * e_(r.choice(idx))
    else:
        # sign consistent numerator (virtual and occupied energies enter with
        # opposite signs); occasionally an inconsistent one (refused)
        terms = r.sample(idx, r.randint(1, min(3, len(idx))))
        sg = r.choice([1, -1])
        mixed = r.random() < 0.1
        num = Add(*[(sg if (gen.idx_space(x[0]) == "v" or mixed) else -sg) *
                    Rational(r.choice([1, 2, 1, 3]), r.choice([1, 1, 2, 3]))
                    * e_(x) for x in terms])
    if num == 0:
        num = 1
    return gen.build_term(base) * num * denom


def emit(chk, pre, post, key, what, tsyms, fock="gen", **kw):
    try:
        ev, ctx = build.valpres(pre, post, op="valpres", key=key, what=what,
                                tgt_syms=tsyms, fock=fock, **kw)
    except adapter.Unsupported as u:
        chk.count("unsupported")
        return
    chk.add_event(ev)
    return ev


def run(chk):
    r = random.Random(chk.seed)
    quick = chk.tier == "quick"
    g = gen.Gen(chk.seed, spaces="ov", numbered_prob=0.05)
    n_cases = 120 if quick else 1500
    for case in range(n_cases):
        g.new_expression(True)
        targets = g.targets(n=r.choice([0, 1, 2]))
        tsyms = [gen.sym_of(t) for t in targets]
        try:
            term = fraction_term(g, r, targets)
        except RuntimeError:
            continue
        if term is None or term == 0:
            continue
        # NOTE: Expr methods (expand, ...) work in place -> separate objects
        pre = Expr(term, real=True, target_idx=tsyms)
        single = build.expand_mul(Expr(term, real=True, target_idx=tsyms))
        ops = []
        eo, exc = guarded(EriOrbenergy, pre.terms[0])
        chk.count("fraction_terms")
        if exc:
            # documented refusals of the splitter (invalid fraction shape)
            if exc["type"] in ("Inputerror", "NotImplementedError"):
                chk.count("refused")
                continue
            chk.report_direct("frac:split:exception", f"EriOrbenergy({term}) "
                              f"raised {exc['type']}: {exc['msg']}", exc)
            continue
        ops.append(("expr", lambda: eo.expr))
        ops.append(("canonicalize_sign",
                    lambda: eo.copy().canonicalize_sign().expr))
        ops.append(("permute_num", lambda: eo.copy().permute_num().expr))
        ops.append(("cancel_orb_energy_frac",
                    lambda: eo.copy().cancel_orb_energy_frac()))
        ops.append(("canonicalize+cancel", lambda: eo.copy().canonicalize_sign()
                    .cancel_orb_energy_frac()))
        for name, fn in ops:
            post, exc = guarded(fn)
            chk.count("operations")
            what = f"EriOrbenergy({term}).{name}"
            if exc:
                if exc["type"] == "RuntimeError" and (
                        "sign" in exc["msg"] or "Ambiguous" in exc["msg"]):
                    chk.count("refused")      # not a sign-definite fraction
                    continue
                chk.report_direct(f"frac:{name}:exception", f"{what} raised "
                                  f"{exc['type']}: {exc['msg']}", exc)
                continue
            emit(chk, pre, build.expand_mul(Expr(post.sympy, **pre.assumptions)),
                 f"frac:{name}", what, tsyms)
        # symbolic <-> explicit denominators
        sd, exc = guarded(lambda: build.expand_mul(
            Expr(term, real=True, target_idx=tsyms)).use_symbolic_denominators())
        chk.count("operations")
        if exc:
            if exc["type"] != "RuntimeError":
                chk.report_direct("frac:symbolic:exception",
                                  f"use_symbolic_denominators({term}) raised "
                                  f"{exc['type']}: {exc['msg']}", exc)
        else:
            emit(chk, single, sd, "frac:use_symbolic_denominators",
                 f"Expr({term}).use_symbolic_denominators()", tsyms)
            back, exc = guarded(lambda: Expr(sd.sympy, **sd.assumptions)
                                .use_explicit_denominators())
            chk.count("operations")
            if exc:
                chk.report_direct("frac:explicit:exception",
                                  f"use_explicit_denominators({sd}) raised "
                                  f"{exc['type']}: {exc['msg']}", exc)
            else:
                emit(chk, sd, back, "frac:use_explicit_denominators",
                     f"Expr({sd}).use_explicit_denominators()", tsyms)
        if case % 12 == 0:
            chk.add_sample({"term": str(term)[:300]})

    # structured fractions: a numerator that is NOT symmetric under a
    # permutation of contracted indices which changes the sign of the
    # remainder but leaves the denominator unchanged (permute_num must then
    # ANTIsymmetrise the numerator), and similar corner cases
    from adcgen.sympy_objects import Amplitude
    from adcgen.indices import get_symbols
    i, j, k, a, b, c = get_symbols("ijkabc")

    def E(s_):
        return NonSymmetricTensor(tn.orb_energy, (s_,))
    V_ = AntiSymmetricTensor(tn.eri, (i, j), (a, b), 1)
    D2 = E(a) + E(b) - E(i) - E(j)
    h_ = AntiSymmetricTensor("Wq", (a,), (b,), 0)
    structured = [
        (E(i) * V_ / D2, [a, b]),
        (-E(i) * V_ / D2 ** 2, [a, b]),
        (E(a) * V_ * h_ / D2, []),
        ((E(i) - 2 * E(j)) * V_ * Amplitude("t1", (a, b), (i, j)) / D2, []),
        ((E(a) - E(i)) * V_ * h_ / (D2 * (E(a) - E(i))), [j]),
        (E(i) * V_ * AntiSymmetricTensor(tn.eri, (i, k), (a, b), 1) / D2, [k]),
        (-(E(a) + 2 * E(b)) * V_ / D2, [i, j]),
        # brackets that change sign under an exchange of two indices of one
        # space, with a remainder that changes sign too (0/0 at i = j is 0 in
        # the model: Inv(0) = 0 and the antisymmetric remainder vanishes)
        (E(i) * V_ / (E(i) - E(j)), [a, b]),
        (E(i) * V_ * h_ / ((E(i) - E(j)) * D2), []),
        ((E(a) + E(i)) * V_ / ((E(i) - E(j)) * (E(a) - E(b))), []),
    ]
    for term, tsyms in structured:
        pre = Expr(term, real=True, target_idx=tsyms)
        eo, exc = guarded(EriOrbenergy, pre.terms[0])
        chk.count("fraction_terms")
        if exc:
            continue
        for name, fn in (("expr", lambda: eo.expr),
                         ("permute_num", lambda: eo.copy().permute_num().expr),
                         ("canonicalize_sign",
                          lambda: eo.copy().canonicalize_sign().expr),
                         ("permute_num+symbolic",
                          lambda: build.expand_mul(Expr(
                              eo.copy().permute_num().expr.sympy,
                              **pre.assumptions)).use_symbolic_denominators()),
                         ("cancel_orb_energy_frac",
                          lambda: eo.copy().cancel_orb_energy_frac())):
            post, exc = guarded(fn)
            chk.count("operations")
            what = f"EriOrbenergy({term}).{name}"
            if exc:
                if exc["type"] == "RuntimeError" and (
                        "sign" in exc["msg"] or "Ambiguous" in exc["msg"]):
                    chk.count("refused")
                    continue
                chk.report_direct(f"frac:{name}:exception", f"{what} raised "
                                  f"{exc['type']}: {exc['msg']}", exc)
                continue
            emit(chk, pre, build.expand_mul(Expr(post.sympy, **pre.assumptions)),
                 f"frac:structured:{name}", what, tsyms)

    # grouping by equal remainder / denominator: sums of fraction terms
    for case in range(40 if quick else 400):
        g.new_expression(True)
        targets = g.targets(n=r.choice([0, 2]))
        tsyms = [gen.sym_of(t) for t in targets]
        terms = []
        try:
            base = fraction_term(g, r, targets)
        except RuntimeError:
            continue
        if base is None:
            continue
        terms.append(base)
        for _ in range(r.randint(1, 3)):
            try:
                t = fraction_term(g, r, targets)
            except RuntimeError:
                t = None
            if t is not None:
                terms.append(Rational(r.choice([1, -1, 2]), r.choice([1, 2])) * t)
        pre = build.expand_mul(Expr(Add(*terms), real=True, target_idx=tsyms))
        for name, fn in (("factor_eri_parts", factor_eri_parts),
                         ("factor_denom", factor_denom)):
            parts, exc = guarded(fn, Expr(pre.sympy, **pre.assumptions))
            chk.count("operations")
            what = f"{name}({pre})"
            if exc:
                if exc["type"] in ("NotImplementedError",):
                    chk.count("refused")
                    continue
                chk.report_direct(f"frac:{name}:exception", f"{what[:300]} "
                                  f"raised {exc['type']}: {exc['msg']}", exc)
                continue
            total = Expr(0, **pre.assumptions)
            for p_ in parts:
                total += p_
            emit(chk, pre, build.expand_mul(total), f"frac:{name}", what[:300], tsyms)

    # Fock (block-)diagonalisation
    gf = gen.Gen(chk.seed + 3, spaces="ov")
    for case in range(80 if quick else 800):
        gf.new_expression(True)
        targets = gf.targets(n=r.choice([0, 1, 2]))
        tsyms = [gen.sym_of(t) for t in targets]
        try:
            ts = [gf.term(targets, kinds=r.choice(["fV", "fMV", "fA", "ffV",
                                                   "fMM"]),
                          n_obj=r.randint(2, 3)) for _ in range(r.randint(1, 2))]
        except RuntimeError:
            continue
        total = gen.build_sum(ts)
        if total == 0:
            continue
        explicit = r.random() < 0.5
        kw = {"real": True}
        if explicit:
            kw["target_idx"] = tsyms
        for name, fockmodel in (("diagonalize_fock", "diag"),
                                ("block_diagonalize_fock", "bdiag")):
            pre = Expr(total, **kw)
            pre_copy = Expr(pre.sympy, **pre.assumptions)
            post, exc = guarded(getattr(pre, name))
            chk.count("operations")
            what = f"Expr({total}).{name}()"
            if exc:
                if exc["type"] == "NotImplementedError":
                    chk.count("refused")
                    continue
                chk.report_direct(f"fock:{name}:exception", f"{what} raised "
                                  f"{exc['type']}: {exc['msg']}", exc)
                continue
            ev = emit(chk, pre_copy, post, f"fock:{name}", what, tsyms,
                      fock=fockmodel)
            if ev is not None:
                # targets kept
                prov = post.provided_target_idx
                if name == "diagonalize_fock" and prov is not None and \
                        set(prov) != set(pre_copy.terms[0].target):
                    chk.report_direct("fock:targets", f"{what}: target "
                                      f"indices changed to {prov}", {})
    # chains of Fock elements that share indices, in every naming (the order
    # in which the elements are met depends on the index names): either
    # refused (NotImplementedError) or value preserving
    from itertools import permutations
    chain_cases = []
    for letters in ("ijk", "abc"):
        for p_ in permutations(letters):
            x0, x1, x2 = get_symbols("".join(p_))
            F = lambda u, l: AntiSymmetricTensor(tn.fock, (u,), (l,), 1)  # noqa
            X1 = NonSymmetricTensor("nq", (x2,))
            chain_cases.append((F(x0, x1) * F(x1, x2) * X1, [x0]))
            chain_cases.append((F(x0, x1) * F(x1, x2) * F(x2, x0), []))
            chain_cases.append((F(x0, x1) * F(x2, x1) *
                                NonSymmetricTensor("nq", (x0, x2)), []))
    for p_ in (list(permutations("ijkl"))[::3] if quick
               else permutations("ijkl")):
        x0, x1, x2, x3 = get_symbols("".join(p_))
        chain_cases.append((F(x0, x1) * F(x1, x2) * F(x2, x3) *
                            NonSymmetricTensor("nq", (x3,)), [x0]))
    for term, tsyms in chain_cases:
        pre = Expr(term, real=True, target_idx=tsyms)
        pre_copy = Expr(pre.sympy, **pre.assumptions)
        post, exc = guarded(pre.diagonalize_fock)
        chk.count("operations")
        what = f"Expr({term}, target_idx={tsyms}).diagonalize_fock()"
        if exc:
            if exc["type"] == "NotImplementedError":
                chk.count("refused")
                continue
            chk.report_direct("fock:diagonalize_fock:exception", f"{what} "
                              f"raised {exc['type']}: {exc['msg']}", exc)
            continue
        emit(chk, pre_copy, post, "fock:chain:diagonalize_fock", what, tsyms,
             fock="diag")
    chk.judge(chunk=600)
    if chk.tier != "quick":
        # system-level workflows (spec/Pipeline.tla): the steps that belong
        # to this property's operations
        from .pipeline import run_pipelines
        run_pipelines(chk, "C13")
    if chk.tier != "quick":
        # generated workflows (spec/PipelineGen.tla -> real API -> Pipeline.tla):
        # the steps that belong to this property's operations
        from .chains import run_chains
        run_chains(chk, 60, cfg="PipelineGen_l6.cfg", only_prop="C13")
    return chk.finish(
        rule="seeded fraction terms (remainder tensors x numerator with "
             "rational coefficients x 1-3 sign-definite brackets with "
             "exponents 1-2, target/contracted splits): EriOrbenergy .expr, "
             ".canonicalize_sign, .permute_num, .cancel_orb_energy_frac, "
             "symbolic <-> explicit denominators, factor_eri_parts / "
             "factor_denom on sums, diagonalize_fock under the diagonal-Fock "
             "model and block_diagonalize_fock under the block-diagonal model; "
             "one event per operation, TLC compares Val on all target "
             "assignments")
