"""C02 - ground-state perturbation theory vs determinant-space RSPT."""
from sympy import Symbol, S

from adcgen import Operators, GroundState
from adcgen.expr_container import Expr
from adcgen.indices import get_symbols
from adcgen.sympy_objects import Amplitude
from adcgen.tensor_names import tensor_names as tn

from .. import adapter, build, events, oracle
from ..runner import guarded
from functools import partial

# derivations are long single calls: their own time limit
guarded = partial(guarded, call_timeout=900)      # DERIVATION


def global_models(names, sizes, seeds, K, maxcls, dn=1, variant="mp"):
    """One model per (size, seed) with the RSPT oracle switched on."""
    gm = []
    ctx = adapter.Ctx(names=names)
    bkn = [0] * len(names)
    bkn[names[tn.eri] - 1] = 1
    bkn[names[tn.fock] - 1] = 1
    bkn[names[tn.sym_orb_denom] - 1] = -1
    for (no, nv) in sizes:
        for sd in seeds:
            gm.append(events.model(
                ctx, noa=no, nva=nv, seed=sd, fock="diag", bkn=bkn,
                oracle="rspt", gs=oracle.gs_record(names, K, maxcls, dn=dn,
                                                   variant=variant)))
    return gm


def emit(chk, names, gm_refs, derived, ref, tsyms, key, what, real):
    """derived: sympy result of the library; ref: the oracle-side AST
    (a symbol or an amplitude whose table Rspt.tla fills)."""
    expr = Expr(derived, real=real).expand()
    try:
        ev, ctx = build.valpres(ref, expr, op="valpres", key=key, what=what,
                                tgt_syms=tsyms, names=names,
                                global_models=gm_refs)
    except adapter.Unsupported as u:
        chk.count("unsupported")
        chk.machinery_errors.append(f"{what}: no AST ({u})")
        return
    ev["text"]["post"] = ev["text"]["post"][:400]
    chk.add_event(ev)
    chk.add_sample({"request": what, "n_terms": len(ev["post"]),
                    "derived": ev["text"]["post"][:200]})


def run(chk):
    quick = chk.tier == "quick"
    K = 4
    names = oracle.gs_names(4)
    sizes = [(3, 3), (2, 3), (2, 2)] if quick else [(3, 3), (3, 2), (2, 3), (2, 2)]
    seeds = (1, 2) if quick else (1, 2, 3)
    chk.run_mc("MC_Rspt", cfg="MC_Rspt.cfg", timeout=1200,
               what="oracle sanity: intermediate normalisation, closed forms "
                    "of E1/E2, hermiticity of H1 on 12 model Hamiltonians")
    gm = global_models(names, sizes, seeds, K, 3 if quick else 3)
    refs = [(k + 1, gm[k]["noa"], gm[k]["nva"]) for k in range(len(gm))]
    header = {"op": "globals", "gm": gm}
    mp = GroundState(Operators("mp"))
    mp_s = GroundState(Operators("mp"), first_order_singles=True)

    # --- energies ----------------------------------------------------------
    for n in range(0, K + 2):
        res, exc = guarded(mp.energy, n)
        chk.count("derivations")
        what = f"GroundState(mp).energy({n})"
        if exc:
            chk.report_direct("gs:energy:exception", f"{what} raised "
                              f"{exc['type']}: {exc['msg']}", exc)
            continue
        for real in (False, True):
            emit(chk, names, refs, res, Symbol(f"Egs{n}"), [],
                 f"gs:energy({n})", what + f" real={real}", real)

    # --- amplitudes --------------------------------------------------------
    reqs = [(1, "pphh", "ijab"), (2, "ph", "ia"), (2, "pphh", "ijab"),
            (2, "ppphhh", "ijkabc"), (1, "ph", "ia"), (1, "pphh", "klcd"),
            (2, "pphh", "jiba"), (2, "ph", "kc")]
    reqs += [(3, "ph", "ia")]
    # the last base letters of each space (a summation index inside the
    # operators must not be one of the plain names a caller may use)
    reqs += [(1, "ph", "oh"), (2, "ph", "oh"), (2, "pphh", "noab"),
             (2, "ph", "ng")]
    if not quick:
        reqs += [(3, "pphh", "ijab"), (3, "ppphhh", "ijkabc"),
                 (2, "ppphhh", "kjicba"), (3, "ph", "i3a3"),
                 (3, "pphh", "jiab")]
    for (n, space, idx) in reqs:
        if n > K:
            continue
        res, exc = guarded(mp.amplitude, n, space, idx)
        chk.count("derivations")
        what = f"GroundState(mp).amplitude({n}, '{space}', '{idx}')"
        if exc:
            chk.report_direct("gs:amplitude:exception", f"{what} raised "
                              f"{exc['type']}: {exc['msg']}", exc)
            continue
        syms = get_symbols(idx)
        lower = [s for s in syms if s.space == "occ"]
        upper = [s for s in syms if s.space == "virt"]
        ref = Amplitude(f"{tn.gs_amplitude}{n}", upper, lower) \
            if res != 0 else S.Zero
        # a class that does not exist at this order: the table gives 0 too
        ref = Amplitude(f"{tn.gs_amplitude}{n}", upper, lower)
        emit(chk, names, refs, res, ref, syms, f"gs:amplitude({n},{space})",
             what, True)

    # --- expectation values of a one-particle operator ---------------------
    for n in range(0, K + 1):
        res, exc = guarded(mp.expectation_value, n, 1)
        chk.count("derivations")
        what = f"GroundState(mp).expectation_value({n}, 1)"
        if exc:
            chk.report_direct("gs:expectation:exception", f"{what} raised "
                              f"{exc['type']}: {exc['msg']}", exc)
            continue
        emit(chk, names, refs, res, Symbol(f"Xgs{n}"), [],
             f"gs:expectation({n},1)", what, True)

    # --- first-order singles switched on (they vanish for canonical HF, the
    #     additional terms must not change the value) ------------------------
    for (n, space, idx) in [(2, "ph", "ia"), (2, "pphh", "ijab"), (3, "ph", "ia")]:
        res, exc = guarded(mp_s.amplitude, n, space, idx)
        chk.count("derivations")
        what = f"GroundState(mp, first_order_singles=True).amplitude({n}, '{space}', '{idx}')"
        if exc:
            chk.report_direct("gs:amplitude-singles:exception", f"{what} raised "
                              f"{exc['type']}: {exc['msg']}", exc)
            continue
        syms = get_symbols(idx)
        lower = [s for s in syms if s.space == "occ"]
        upper = [s for s in syms if s.space == "virt"]
        emit(chk, names, refs, res, Amplitude(f"{tn.gs_amplitude}{n}", upper, lower),
             syms, f"gs:amplitude-singles({n},{space})", what, True)
    for n in (2, 3):
        res, exc = guarded(mp_s.energy, n)
        chk.count("derivations")
        if not exc:
            emit(chk, names, refs, res, Symbol(f"Egs{n}"), [],
                 f"gs:energy-singles({n})",
                 f"GroundState(mp, first_order_singles=True).energy({n})", True)

    # the header must be the first record of every chunk
    verdict_events = list(chk.events)
    chunk = 40
    for i in range(0, len(verdict_events), chunk):
        part = verdict_events[i:i + chunk]
        chk.judge_with_header(header, part)
    # --- two-particle operator: its own oracle models (rank of d differs) ---
    first = len(chk.events)
    gm2 = global_models(names, sizes[-2:], seeds[:1], 2, 2, dn=2)
    refs2 = [(k + 1, gm2[k]["noa"], gm2[k]["nva"]) for k in range(len(gm2))]
    for n in range(0, 3):
        res, exc = guarded(mp.expectation_value, n, 2)
        chk.count("derivations")
        what = f"GroundState(mp).expectation_value({n}, 2)"
        if exc:
            chk.report_direct("gs:expectation2:exception", f"{what} raised "
                              f"{exc['type']}: {exc['msg']}", exc)
            continue
        emit(chk, names, refs2, res, Symbol(f"Xgs{n}"), [],
             f"gs:expectation({n},2)", what, True)
    chk.judge_with_header({"op": "globals", "gm": gm2}, chk.events[first:])

    # --- RE partitioning: H0 = excitation-degree conserving part of H --------
    # amplitude tables = coefficients of the RE perturbed wavefunctions that
    # Rspt!ReRspt obtains by solving (E0 - H0) psi(n) = ... in determinant
    # space; the derived residuals must vanish, the derived energies agree.
    first = len(chk.events)
    Kre = 3
    re_sizes = [(3, 3), (2, 3), (2, 2)] if quick else [(3, 3), (3, 2), (2, 3)]
    gm3 = global_models(names, re_sizes, seeds[:2], Kre, 3, variant="re")
    refs3 = [(k + 1, gm3[k]["noa"], gm3[k]["nva"]) for k in range(len(gm3))]
    re = GroundState(Operators("re"))
    re_s = GroundState(Operators("re"), first_order_singles=True)
    for n in range(0, Kre + 2):
        res, exc = guarded(re.energy, n)
        chk.count("derivations")
        what = f"GroundState(re).energy({n})"
        if exc:
            chk.report_direct("gs:re-energy:exception", f"{what} raised "
                              f"{exc['type']}: {exc['msg']}", exc)
            continue
        emit(chk, names, refs3, res, Symbol(f"Egs{n}"), [],
             f"gs:re-energy({n})", what, True)
    rreqs = [(re, 1, "pphh", "ijab"), (re, 2, "ph", "ia"),
             (re, 2, "pphh", "ijab"),
             (re, 1, "pphh", "klcd"), (re, 2, "pphh", "jiba"),
             (re_s, 1, "ph", "ia"), (re_s, 2, "ph", "kc"),
             (re_s, 1, "pphh", "ijab")]
    # third order: the first order at which E(m) t(n-m) with m >= 2 enters
    rreqs += [(re, 3, "ph", "ia"), (re, 3, "pphh", "ijab")]
    if not quick:
        rreqs += [(re_s, 2, "pphh", "ijab"), (re, 2, "ppphhh", "ijkabc")]
    for (g, n, space, idx) in rreqs:
        res, exc = guarded(g.amplitude_residual, n, space, idx)
        chk.count("derivations")
        if exc and exc.get("timeout"):
            chk.count("library_timeouts")
            continue
        what = f"GroundState(re{', first_order_singles=True' if g is re_s else ''})" \
               f".amplitude_residual({n}, '{space}', '{idx}')"
        if exc:
            chk.report_direct("gs:re-residual:exception", f"{what} raised "
                              f"{exc['type']}: {exc['msg']}", exc)
            continue
        emit(chk, names, refs3, res, S.Zero, get_symbols(idx),
             f"gs:re-residual({n},{space})", what, True)
    for n in range(0, Kre + 1):
        res, exc = guarded(re.expectation_value, n, 1)
        chk.count("derivations")
        what = f"GroundState(re).expectation_value({n}, 1)"
        if exc:
            chk.report_direct("gs:re-expectation:exception", f"{what} raised "
                              f"{exc['type']}: {exc['msg']}", exc)
            continue
        emit(chk, names, refs3, res, Symbol(f"Xgs{n}"), [],
             f"gs:re-expectation({n},1)", what, True)
    chk.judge_with_header({"op": "globals", "gm": gm3}, chk.events[first:])
    # the pure helper functions behind this property (spec/Helpers.tla)
    from .helpers import run_helpers
    run_helpers(chk, ('norm', 'gto'))
    return chk.finish(
        rule="each derived ground-state quantity (energies 0..K+1, amplitudes "
             "of every class and order <= K incl. permuted / renamed index "
             "tuples, one-particle expectation values 0..K) is one event; TLC "
             "evaluates the derived expression for every index assignment "
             "with amplitude tables taken from determinant-space RSPT "
             "(spec/Rspt.tla) and compares it with the RSPT coefficient; RE "
             "partitioning: energies, one-particle expectation values and "
             "amplitude residuals (= 0) under the RE wavefunctions obtained by "
             "in-spec Gauss-Jordan elimination; on "
             f"{len(sizes)} model sizes x {len(seeds)} Hamiltonians")
