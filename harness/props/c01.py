"""C01 - Wick evaluation equals the Fermi-vacuum expectation value.

Inputs: (1) every operator string of the build phase of spec/Wick.tla
(TLC also model-checks the transcribed recursion against determinant
algebra on them), with placements of normal-ordered groups and coefficient
index sets; (2) longer seeded strings; (3) Hamiltonian-like products with
f / V coefficient tensors and rule sets."""
import random

from sympy import Mul, Rational, S
from sympy.physics.secondquant import F, Fd, NO

from adcgen.func import wicks
from adcgen.indices import get_symbols, Index
from adcgen.rules import Rules
from adcgen.sympy_objects import NonSymmetricTensor, AntiSymmetricTensor

from .. import adapter, build, tlc
from ..runner import guarded

UNIV = ["i", "j", "a", "b", "p", "q"]
EXTRA = {"o": ["k", "l", "m"], "v": ["c", "d", "e"], "g": ["r", "s", "t"]}

K_NO_GENERAL = "wicks:NO-group-with-general-index"
K_NO_REPEAT = "wicks:NO-group-with-repeated-index"
K_FREE_GENERAL = "wicks:free-general-index-with-delta-evaluation"


def classify(ops, segs, coef, evd):
    """Narrow spec-level input classes of the known findings."""
    for (s, e) in segs:
        if any(x[0] in "pqrstuvw" for _, x in ops[s - 1:e]):
            return K_NO_GENERAL
    for (s, e) in segs:
        names = [x for _, x in ops[s - 1:e]]
        if len(set(names)) < len(names):
            return K_NO_REPEAT
    if evd:
        allnames = [x for _, x in ops]
        for n in set(allnames):
            if n[0] in "pqrstuvw" and allnames.count(n) == 1 and n not in coef:
                return K_FREE_GENERAL
    return None


def build_input(ops, segs, coef):
    """ops: [(kind, name)], segs: [(start, end)] 1-based inclusive NO groups,
    coef: index names on the coefficient tensor."""
    syms = {n: get_symbols(n)[0] for n in {x for _, x in ops} | set(coef)}
    items = []
    k = 1
    segs = sorted(segs)
    while k <= len(ops):
        seg = next((s for s in segs if s[0] == k), None)
        if seg:
            grp = [(F if kd == "F" else Fd)(syms[x])
                   for kd, x in ops[seg[0] - 1:seg[1]]]
            items.append(NO(Mul(*grp)))
            k = seg[1] + 1
        else:
            kd, x = ops[k - 1]
            items.append((F if kd == "F" else Fd)(syms[x]))
            k += 1
    expr = Mul(*items)
    if coef:
        expr = NonSymmetricTensor("n", [syms[x] for x in coef]) * expr
    return expr


def has_operator_power(expr):
    from sympy import Pow
    return any(isinstance(p.args[0], (F, Fd)) for p in expr.atoms(Pow))


def run_case(chk, ops, segs, coef, origin):
    try:
        expr = build_input(ops, segs, coef)
    except Exception as exc:        # sympy refuses the construction itself
        chk.count("sympy_refused_input")
        return
    if expr == 0:
        chk.count("degenerate_input_skipped")
        return
    what0 = f"{expr}"
    for evd in (False, True):
        key = classify(ops, segs, coef, evd) or f"wicks:{origin}"
        res, exc = guarded(wicks, expr, None, evd)
        chk.count("wicks_calls")
        what = f"wicks({what0}, simplify_kronecker_deltas={evd})"
        if exc is not None:
            chk.report_direct(key if key.startswith("wicks:NO") or
                              key == K_FREE_GENERAL else key + ":exception",
                              f"{what} raised {exc['type']}: {exc['msg']}",
                              {"input": what})
            continue
        try:
            ev, ctx = build.valpres(expr, res, op="wicks", key=key, what=what,
                                    sizes=[(2, 2)], seeds=(1, 2))
        except adapter.Unsupported as u:
            chk.count("unsupported")
            continue
        chk.add_event(ev)
    return True


def random_string(r, length):
    """A seeded string of the given length over o/v/g indices with repeats,
    NO groups and a coefficient meeting the precondition."""
    pools = {"o": ["i", "j"] + EXTRA["o"], "v": ["a", "b"] + EXTRA["v"],
             "g": ["p", "q"] + EXTRA["g"]}
    ops = []
    # roughly balanced strings are the non-trivial ones
    for k in range(length):
        kd = r.choice(["F", "Fd"])
        sp = r.choice("oovvg")
        name = r.choice(pools[sp][:r.choice([2, 3, 4])])
        ops.append((kd, name))
    # adjacent identical operators (sympy turns them into a Pow) only
    # occasionally: the product vanishes
    for k in range(1, len(ops)):
        if ops[k] == ops[k - 1] and r.random() < 0.8:
            ops[k] = ("Fd" if ops[k][0] == "F" else "F", ops[k][1])
    names = [x for _, x in ops]
    segs = []
    if r.random() < 0.4:
        s = r.randint(1, length - 1)
        e = r.randint(s + 1, min(length, s + 3))
        segs.append((s, e))
        if r.random() < 0.3 and e + 2 <= length:
            segs.append((e + 1, r.randint(e + 2, length)))
    must = {n for n in names if names.count(n) >= 2}
    opt = [n for n in set(names) if n not in must]
    coef = sorted(must | {n for n in opt if r.random() < 0.5})
    return ops, segs, coef


def hamiltonian_case(chk, r):
    """<bra| f/V operator products |ket> with and without rules."""
    fn, vn = "f", "V"
    p, q, rr, s = get_symbols("pqrs")
    t, u, v, w = get_symbols("tuvw")
    parts = []
    kind = r.choice(["f", "V", "fV", "ff", "VV"])

    def fpart(a, b):
        return AntiSymmetricTensor(fn, (a,), (b,)) * Fd(a) * F(b)

    def vpart(a, b, c, d):
        return Rational(1, 4) * AntiSymmetricTensor(vn, (a, b), (c, d)) * \
            Fd(a) * Fd(b) * F(d) * F(c)
    if kind == "f":
        parts = [fpart(p, q)]
    elif kind == "V":
        parts = [vpart(p, q, rr, s)]
    elif kind == "fV":
        parts = [fpart(t, u), vpart(p, q, rr, s)]
        r.shuffle(parts)
    elif kind == "ff":
        parts = [fpart(p, q), fpart(rr, s)]
    else:
        parts = [vpart(p, q, rr, s), vpart(t, u, v, w)]
    # bra / ket excitation operators on occ / virt target indices
    i, j, a, b = get_symbols("ijab")
    k, l, c, d = get_symbols("klcd")
    nops = {"f": 2, "V": 4, "fV": 6, "ff": 4, "VV": 8}[kind]
    for _ in range(50):
        nb, nk = r.choice([0, 2, 4]), r.choice([0, 2, 4])
        if nops + nb + nk <= 10:      # Wick expansion grows factorially
            break
    bra = {0: S.One, 2: Fd(i) * F(a), 4: Fd(i) * Fd(j) * F(b) * F(a)}[nb]
    ket = {0: S.One, 2: Fd(c) * F(k), 4: Fd(c) * Fd(d) * F(l) * F(k)}[nk]
    expr = Mul(bra, *parts, ket)
    rules_sets = [
        {fn: ["ov", "vo"], vn: ["ooov", "oovv", "ovvv", "ovoo", "vvoo", "vvov"]},
        {fn: ["oo", "vv"], vn: ["oooo", "ovov", "vvvv"]},
        {fn: [r.choice(["oo", "ov", "vo", "vv"])]},
        {vn: r.sample(["oooo", "ooov", "oovv", "ovov", "ovvv", "vvvv", "ovoo",
                       "vvoo", "vvov"], 3)},
    ]
    rl = r.choice(rules_sets)
    evd = r.random() < 0.7
    res, exc = guarded(wicks, expr, None, evd)
    resr, excr = guarded(wicks, expr, Rules(rl), evd)
    chk.count("wicks_calls", 2)
    key = "wicks:hamiltonian-rules"
    what = f"wicks({kind} product, rules={rl}, simplify_kronecker_deltas={evd})"
    if exc is not None or excr is not None:
        e = exc or excr
        chk.report_direct(key + ":exception", f"{what} raised {e['type']}: "
                          f"{e['msg']}", {"input": str(expr)})
        return
    try:
        ev, ctx = build.valpres(expr, res, op="wicks_rules", key=key,
                                what=what, sizes=[(2, 2)], seeds=(1,),
                                more_sides={"postr": resr})
    except adapter.Unsupported:
        chk.count("unsupported")
        return
    rules = []
    for nm, blocks in rl.items():
        if nm in ctx.names:
            for bl in blocks:
                rules.append({"nid": ctx.names[nm], "block": list(bl)})
    if not rules:
        rules = [{"nid": -1, "block": ["x"]}]
    ev["a"] = {"rules": rules}
    ev["text"]["rules"] = str(rl)
    chk.add_event(ev)
    chk.add_sample({"call": what, "input": str(expr)[:300],
                    "n_terms": [len(ev["post"]), len(ev["postr"])]})


def run(chk):
    r = random.Random(chk.seed)
    quick = chk.tier == "quick"
    # design level: the transcription equals the VEV on all strings
    chk.run_mc("Wick", cfg="Wick_L4.cfg" if quick else "Wick_L5.cfg",
               timeout=3300,
               what="transcribed Wick recursion = determinant VEV, all strings"
                    " up to length " + ("4" if quick else "5"))
    if not quick:
        # length 6 exhaustively is ~ 1.5 h of TLC: random behaviours instead
        chk.run_mc("Wick", cfg="Wick_L6.cfg", timeout=3300,
                   extra=("-simulate", "num=200", "-depth", "7",
                          "-seed", str(chk.seed % 100000)),
                   what="transcribed Wick recursion = determinant VEV on "
                        "3 200 random strings of length 6 (tlc -simulate)")
    # generated inputs: all strings of length 2 with all NO / coefficient
    # choices; a seeded sample of the length-4 ones
    res2 = chk.run_mc("Wick", cfg="Wick_L2.cfg", timeout=600,
                      what="build phase, emits the length <= 2 inputs")
    cases = []
    seen = set()
    for c in tlc.extract_printed(res2["stdout"], "CASE"):
        sig = repr(c)
        if sig not in seen:
            seen.add(sig)
            cases.append(c)
    chk.notes["spec_generated_cases_L2"] = len(cases)
    for c in cases:
        _, ops, segs, coef = c
        run_case(chk, [(k, UNIV[x - 1]) for k, x in ops],
                 [tuple(s) for s in segs], [UNIV[x - 1] for x in coef],
                 "spec-case")
    chk.add_sample({"spec_case": cases[len(cases) // 2]})
    n4, n6, n8, nh = (250, 120, 40, 40) if quick else (3000, 1500, 500, 400)
    for length, n in ((4, n4), (6, n6), (8, n8)):
        done = 0
        while done < n:
            ops, segs, coef = random_string(r, length)
            if run_case(chk, ops, segs, coef, f"seeded-L{length}"):
                done += 1
    for _ in range(nh):
        hamiltonian_case(chk, r)
    chk.notes["exhaustive"] = True
    chk.judge(chunk=800)
    return chk.finish(
        rule="(1) all operator strings of length <= 2 over {i,j occ; a,b virt; "
             "p,q general} from the build phase of spec/Wick.tla with every "
             "placement of a normal-ordered group and every admissible "
             "coefficient index set; (2) seeded strings of length 4/6/8 with "
             "repeated indices and NO groups; (3) bra x f/V operator x ket "
             "products with four kinds of rule sets. Each wicks call (delta "
             "evaluation off and on) is an event; TLC compares Val of the "
             "result with the determinant-space expectation value "
             "(Fermi!VEV) summed over the contracted indices for all target "
             "assignments of a 2+2 model.")
