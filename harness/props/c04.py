"""C04 - intermediate states are orthonormal order by order (algebraic
identity in the amplitudes: every t{n} and t{n}cc is an independent
arbitrary antisymmetric tensor in the model)."""
from itertools import permutations

from sympy import Add, Mul, S

from adcgen import Operators, GroundState, IntermediateStates
from adcgen.expr_container import Expr
from adcgen.indices import get_symbols, split_idx_string, index_space
from adcgen.sympy_objects import KroneckerDelta

from .. import adapter, build
from ..runner import guarded
from functools import partial

# derivations are long single calls: their own time limit
guarded = partial(guarded, call_timeout=900)      # DERIVATION


def perm_sign(p):
    p = list(p)
    s = 1
    for i in range(len(p)):
        while p[i] != i:
            j = p[i]
            p[i], p[j] = p[j], p[i]
            s = -s
    return s


def delta_det(a, b):
    """sum over permutations sign * prod delta(a_k, b_p(k))"""
    if len(a) != len(b):
        return S.Zero
    if not a:
        return S.One
    terms = []
    for p in permutations(range(len(a))):
        terms.append(perm_sign(p) * Mul(*[KroneckerDelta(a[k], b[p[k]])
                                          for k in range(len(a))]))
    return Add(*terms)


def reference(order, block, indices):
    """The statement of the property as an expression: antisymmetrised delta
    product at order 0 for equal classes, zero otherwise."""
    bs, ks = block.split(",")
    if order != 0 or sorted(bs) != sorted(ks):
        return S.Zero
    bi, ki = indices.split(",")
    b = get_symbols(bi)
    k = get_symbols(ki)
    bo = [s for s in b if s.space == "occ"]
    bv = [s for s in b if s.space == "virt"]
    ko = [s for s in k if s.space == "occ"]
    kv = [s for s in k if s.space == "virt"]
    return (delta_det(bo, ko) * delta_det(bv, kv)).expand()


def run(chk):
    quick = chk.tier == "quick"
    gs = GroundState(Operators("mp"))
    reqs = {
        "pp": [(0, "ph,ph", "ia,jb"), (1, "ph,ph", "ia,jb"),
               (2, "ph,ph", "ia,jb"), (3, "ph,ph", "ia,jb"),
               (0, "ph,pphh", "ia,jkbc"),
               (1, "ph,pphh", "ia,jkbc"), (2, "ph,pphh", "ia,jkbc"),
               (0, "pphh,pphh", "ijab,klcd"), (1, "pphh,pphh", "ijab,klcd"),
               (1, "pphh,ph", "ijab,kc"), (2, "pphh,ph", "ijab,kc")],
        # first-order singles switched on: generic t1 singles amplitudes
        "pp+s": [(1, "ph,ph", "ia,jb"), (2, "ph,ph", "ia,jb"),
                 (1, "pphh,ph", "ijab,kc"), (1, "ph,pphh", "ia,jkbc")],
        "ip": [(0, "h,h", "i,j"), (1, "h,h", "i,j"), (2, "h,h", "i,j"),
               (3, "h,h", "i,j"), (4, "h,h", "i,j"), (1, "h,phh", "i,jka"),
               (2, "h,phh", "i,jka"), (2, "phh,h", "ija,k"),
               (0, "phh,phh", "ija,klb"), (1, "phh,phh", "ija,klb")],
        "ea": [(0, "p,p", "a,b"), (1, "p,p", "a,b"), (2, "p,p", "a,b"),
               (3, "p,p", "a,b"), (2, "p,pph", "a,ibc"), (2, "pph,p", "iab,c"),
               (0, "pph,pph", "iab,jcd")],
    }
    # classes whose lower class has unequal numbers of occupied and virtual
    # indices (dip: hh below phhh, dea: pp below ppph)
    reqs["dip"] = [(2, "hh,phhh", "ij,aklm"), (2, "phhh,hh", "aklm,ij"),
                   (1, "phhh,phhh", "aijk,blmn")]
    reqs["dea"] = [(2, "pp,ppph", "ab,icde"), (2, "ppph,pp", "icde,ab")]
    reqs["dip+s"] = [(1, "hh,phhh", "ij,aklm"), (1, "phhh,hh", "aklm,ij")]
    reqs["dea+s"] = [(1, "pp,ppph", "ab,icde")]
    if not quick:
        reqs["pp"] += [(2, "pphh,pphh", "ijab,klcd")]
        reqs["pp+s"] += [(2, "pphh,ph", "ijab,kc"), (2, "ph,pphh", "ia,jkbc")]
        reqs["ip"] += [(2, "phh,phh", "ija,klb")]
        reqs["ea"] += [(4, "p,p", "a,b"), (1, "pph,pph", "iab,jcd"),
                       (2, "pph,pph", "iab,jcd")]
        reqs["dip"] += [(0, "hh,hh", "ij,kl"), (1, "hh,hh", "ij,kl"),
                        (2, "hh,hh", "ij,kl")]
        reqs["dea"] += [(0, "pp,pp", "ab,cd"), (2, "pp,pp", "ab,cd")]
    gs_s = GroundState(Operators("mp"), first_order_singles=True)
    for variant, lst in reqs.items():
        isr = IntermediateStates(gs_s, variant[:-2]) if variant.endswith("+s") \
            else IntermediateStates(gs, variant)
        for (order, block, indices) in lst:
            what = f"IntermediateStates({variant}).overlap_isr({order}, '{block}', '{indices}')"
            res, exc = guarded(isr.overlap_isr, order, block, indices)
            chk.count("derivations")
            if exc:
                chk.report_direct(f"overlap:{variant}:{block}:{order}:exception",
                                  f"{what} raised {exc['type']}: {exc['msg']}",
                                  exc)
                continue
            syms = get_symbols(split_idx_string(indices.replace(",", "")))
            expr = Expr(res).expand()
            ref = reference(order, block, indices)
            try:
                ev, ctx = build.valpres(
                    ref, expr, op="valpres",
                    key=f"overlap:{variant}:{block}:order{order}", what=what,
                    tgt_syms=syms, seeds=(1, 2))
            except adapter.Unsupported as u:
                chk.machinery_errors.append(f"{what}: {u}")
                continue
            ev["text"]["post"] = ev["text"]["post"][:300]
            chk.add_event(ev)
            chk.add_sample({"request": what, "n_terms": len(ev["post"]),
                            "reference": str(ref)[:200]})
    # precursor overlap symmetric under exchange of its two index sets
    isr = IntermediateStates(gs, "pp")
    for (order, block, i1, i2) in [(2, "ph,ph", "ia", "jb"),
                                   (1, "ph,ph", "ia", "jb")] + \
            ([] if quick else [(3, "ph,ph", "ia", "jb")]):
        a, e1 = guarded(isr.overlap_precursor, order, block, f"{i1},{i2}")
        b, e2 = guarded(isr.overlap_precursor, order, block, f"{i2},{i1}")
        chk.count("derivations", 2)
        what = f"overlap_precursor({order}, '{block}', '{i1},{i2}') vs '{i2},{i1}'"
        if e1 or e2:
            e = e1 or e2
            chk.report_direct("overlap_precursor:exception", f"{what} raised "
                              f"{e['type']}: {e['msg']}", e)
            continue
        syms = get_symbols(i1 + i2)
        # the property speaks of real amplitudes here (t = tcc)
        ev, ctx = build.valpres(Expr(a, real=True).expand(),
                                Expr(b, real=True).expand(), op="valpres",
                                key=f"overlap_precursor:{block}:order{order}",
                                what=what, tgt_syms=syms)
        chk.add_event(ev)
    chk.judge(chunk=60)
    # the pure helper functions behind this property (spec/Helpers.tla)
    from .helpers import run_helpers
    run_helpers(chk, ('stay', 'gto'))
    return chk.finish(
        rule="each overlap_isr(order, block, indices) request is one event "
             "judged by TLC against the statement itself (antisymmetrised "
             "Kronecker-delta product at order 0 for equal classes, zero "
             "otherwise) under tensor models in which every t{n} and t{n}cc "
             "is an independent arbitrary antisymmetric tensor, for all "
             "bra/ket index assignments; overlap_precursor(I,J) vs (J,I)")
