"""C11 - expanding, factoring and reducing intermediates are consistent."""
import random

from sympy import Mul, Rational

from adcgen import Intermediates, reduce_expr, factor_intermediates
from adcgen.expr_container import Expr
from adcgen.indices import get_symbols
from adcgen.sympy_objects import (AntiSymmetricTensor, Amplitude,
                                  NonSymmetricTensor)
from adcgen.tensor_names import tensor_names as tn

from .. import adapter, build, events, gen, oracle
from ..runner import guarded

MISC = ["t2eri_1", "t2eri_2", "t2eri_3", "t2eri_4", "t2eri_5", "t2eri_6",
        "t2eri_7", "t2eri_A", "t2eri_B", "t2sq"]
ORACLE = ["t2_1", "t1_2", "t2_2", "p0_2_oo", "p0_2_vv"]


def shared_names():
    names = oracle.gs_names(4)
    avail = Intermediates().available
    for n in MISC:
        names.setdefault(avail[n].tensor(return_sympy=True).name,
                         len(names) + 1)
    for n in (tn.left_adc_amplitude, tn.right_adc_amplitude, "Wq", "nq"):
        names.setdefault(n, len(names) + 1)
    return names


def definitions(names):
    """fully expanded definitions of the composite intermediates"""
    avail = Intermediates().available
    defs = []
    for n in MISC:
        it = avail[n]
        tens = it.tensor(return_sympy=True)
        x = Expr(it.expand_itmd(fully_expand=True).sympy, real=True).expand()
        x = build.expand_mul(x)
        ctx = adapter.Ctx(names=names)
        terms = adapter.project_expr(x, ctx)
        syms = get_symbols(it.default_idx)
        tgt = [ctx.index(s) for s in syms]
        adapter.fill_order(terms, tgt)
        if isinstance(tens, NonSymmetricTensor):
            kd, nu, nl = "N", len(syms), 0
        else:
            kd = "M" if isinstance(tens, Amplitude) else "A"
            nu, nl = len(tens.upper), len(tens.lower)
        # tensor axes (Obj.idx order) -> target ids
        axes = [ctx.index(s) for s in (tens.indices if kd == "N" else
                (tuple(tens.lower) + tuple(tens.upper) if kd == "M" else
                 tuple(tens.upper) + tuple(tens.lower)))]
        defs.append({"nid": names[tens.name], "kd": kd, "nu": nu, "nl": nl,
                     "idx": ctx.idx, "tgt": axes, "x": terms})
    return defs


def make_models(names, sizes, seeds, defs):
    ctx0 = adapter.Ctx(names=names)
    bkn = [0] * len(names)
    for n, v in ((tn.eri, 1), (tn.fock, 1), (tn.sym_orb_denom, -1),
                 ("t2sq", 1)):
        bkn[names[n] - 1] = v
    for n in range(0, 5):
        bkn[names[f"{tn.gs_density}{n}"] - 1] = 1
    gm = []
    for (no, nv) in sizes:
        for sd in seeds:
            m = events.model(ctx0, noa=no, nva=nv, seed=sd, fock="diag",
                             bkn=bkn, oracle="rspt+defs",
                             gs=oracle.gs_record(names, 2, 2, with_d=False,
                                                 dens=True))
            m["defs"] = defs
            gm.append(m)
    return gm


def itmd_shape(it):
    tens = it.tensor(return_sympy=True)
    sp = ["o" if s.space == "occ" else "v" for s in get_symbols(it.default_idx)]
    if isinstance(tens, NonSymmetricTensor):
        return dict(kind="N", name=tens.name, nu=len(sp), nl=0, su=sp, sl=[],
                    bk=0)
    kd = "M" if isinstance(tens, Amplitude) else "A"
    up = ["o" if s.space == "occ" else "v" for s in tens.upper]
    lo = ["o" if s.space == "occ" else "v" for s in tens.lower]
    return dict(kind=kd, name=tens.name, nu=len(up), nl=len(lo), su=up, sl=lo,
                bk=int(tens.bra_ket_sym))


def run(chk):
    r = random.Random(chk.seed)
    quick = chk.tier == "quick"
    names = shared_names()
    defs = definitions(names)
    # (definition tables of the composite intermediates on (3,3) cost ~50 min per
    #  trace chunk: the thorough tier stays at mixed 3/2 spaces)
    sizes = [(3, 2), (2, 2)] if quick else [(3, 2), (2, 3), (2, 2)]
    gm = make_models(names, sizes, (1, 2), defs)
    refs = [(k + 1, gm[k]["noa"], gm[k]["nva"]) for k in range(len(gm))]
    header = {"op": "globals", "gm": gm}
    avail = Intermediates().available
    g = gen.Gen(chk.seed, spaces="ov", numbered_prob=0.05)
    pool = ORACLE + MISC
    n_cases = 16 if quick else 120

    def emit(pre, post, key, what, tsyms):
        try:
            ev, ctx = build.valpres(pre, post, op="valpres", key=key,
                                    what=what, tgt_syms=tsyms, names=names,
                                    global_models=refs)
        except adapter.Unsupported as u:
            chk.count("unsupported")
            return
        ev["text"]["post"] = ev["text"]["post"][:300]
        chk.add_event(ev)
        return ev

    for case in range(n_cases):
        g.new_expression(True)
        its = [avail[n] for n in r.sample(pool, r.choice([1, 1, 2]))]
        shapes = [itmd_shape(it) for it in its]
        # free tensors: amplitude vector / generic tensors
        for _ in range(r.randint(0, 2)):
            k = r.choice(["X", "W", "n"])
            if k == "X":
                n_ = r.choice([1, 2])
                shapes.append(dict(kind="M", name=tn.right_adc_amplitude,
                                   nu=n_, nl=n_, su=["v"] * n_, sl=["o"] * n_,
                                   bk=0))
            elif k == "W":
                shapes.append(dict(kind="A", name="Wq", nu=1, nl=1,
                                   su=[None], sl=[None], bk=0))
            else:
                shapes.append(dict(kind="N", name="nq", nu=2, nl=0,
                                   su=[None, None], sl=[], bk=0))
        targets = g.targets(n=r.choice([0, 1, 2]))
        try:
            t = g.term(targets, shapes=shapes, trace_prob=0.0)
        except RuntimeError:
            continue
        term = gen.build_term(t)
        if term == 0:
            continue
        tsyms = [gen.sym_of(x) for x in targets]
        base = Expr(term, real=True, target_idx=tsyms)
        base_copy = Expr(base.sympy, **base.assumptions)
        label = "*".join(it.name for it in its)

        # (a) expansion, once and fully
        expanded = {}
        for full in (False, True):
            x = Expr(base.sympy, **base.assumptions)
            res, exc = guarded(x.expand_intermediates, full)
            chk.count("expand_calls")
            what = f"Expr({term}).expand_intermediates(fully_expand={full})"
            if exc:
                chk.report_direct("itmd:expand:exception", f"{what} raised "
                                  f"{exc['type']}: {exc['msg']}", exc)
                continue
            res = build.expand_mul(Expr(res.sympy, **res.assumptions))
            expanded[full] = res
            emit(base_copy, res, f"itmd:expand:{label}", what, tsyms)
        if True not in expanded:
            continue
        full = expanded[True]
        # (b) factoring the fully expanded expression again
        subset = r.choice([None, [it.name for it in its],
                           ["t_amplitude"], ["t2_1"],
                           [it.name for it in its] + ["t2_1"]])
        max_order = r.choice([None, None, 1, 2])
        what = (f"factor_intermediates(<fully expanded {label} term>, "
                f"types_or_names={subset}, max_order={max_order})")
        fx = Expr(full.sympy, **full.assumptions)
        if r.random() < 0.5:
            # the summation indices named independently in every term
            fx = build.rename_dummies(fx, r)
            full = Expr(fx.sympy, **fx.assumptions)
            what += " [summation indices renamed per term]"
            chk.count("renamed_inputs")
        res, exc = guarded(factor_intermediates, fx, subset, max_order)
        chk.count("factor_calls")
        if exc:
            if exc.get("timeout") or exc["type"] == "NotImplementedError":
                chk.count("refused_or_timeout")
            else:
                chk.report_direct("itmd:factor:exception", f"{what} raised "
                                  f"{exc['type']}: {exc['msg']}", exc)
        else:
            res2 = build.expand_mul(Expr(res.sympy, **res.assumptions))
            ev = emit(full, res2, f"itmd:factor:{label}", what, tsyms)
            if ev:
                chk.add_sample({"call": what, "input_terms": len(full),
                                "result": str(res)[:200]})
        # (c) full reduction
        if case % 2 == 0:
            rx = Expr(base.sympy, **base.assumptions)
            res, exc = guarded(reduce_expr, rx)
            chk.count("reduce_calls")
            what = f"reduce_expr({term})"
            if exc:
                if exc.get("timeout") or exc["type"] == "NotImplementedError":
                    chk.count("refused_or_timeout")
                else:
                    chk.report_direct("itmd:reduce:exception", f"{what} raised"
                                      f" {exc['type']}: {exc['msg']}", exc)
            else:
                emit(base_copy, build.expand_mul(Expr(res.sympy,
                                                      **res.assumptions)),
                     f"itmd:reduce:{label}", what, tsyms)
    # (a') powers of intermediates whose definition carries summation indices:
    #      every factor of the power needs its own summation indices
    from sympy import Pow as _Pow
    pw = ["t1_2", "p0_2_oo", "p0_2_vv", "t2sq", "t2eri_3", "t2eri_4"]
    if quick:
        pw = pw[:2] + r.sample(pw[2:], 2)
    for name in pw:
        it = avail[name]
        for idx, expo in ((it.default_idx, 2), (it.default_idx, 3)):
            if expo == 3 and (quick or name.startswith("t2")):
                continue
            tens = it.tensor(idx, return_sympy=True)
            tsyms = list(get_symbols(idx))
            base = Expr(_Pow(tens, expo), real=True, target_idx=tsyms)
            base_copy = Expr(base.sympy, **base.assumptions)
            for full in (False, True):
                x = Expr(base.sympy, **base.assumptions)
                res, exc = guarded(x.expand_intermediates, full)
                chk.count("expand_calls")
                what = (f"Expr({base_copy.sympy}).expand_intermediates("
                        f"fully_expand={full})")
                if exc:
                    chk.report_direct("itmd:expand:exception", f"{what} "
                                      f"raised {exc['type']}: {exc['msg']}",
                                      exc)
                    continue
                res = build.expand_mul(Expr(res.sympy, **res.assumptions))
                emit(base_copy, res, f"itmd:expand-power:{name}^{expo}", what,
                     tsyms)
    # (d) brackets with a higher exponent than the integrals: amplitude
    #     overlaps and orbital-energy derivatives (V / D^2 ...)
    from adcgen.sympy_objects import SymmetricTensor
    i, j, k, l, a, b, c, d = get_symbols("ijklabcd")
    t21, t22, t12 = avail["t2_1"], avail["t2_2"], avail["t1_2"]
    Y2 = Amplitude(tn.right_adc_amplitude, (a, b), (i, j))
    Y1 = Amplitude(tn.right_adc_amplitude, (a,), (i,))

    def den(up, lo):
        from sympy import Add
        return Add(*[NonSymmetricTensor(tn.orb_energy, (s,)) for s in up],
                   *[-NonSymmetricTensor(tn.orb_energy, (s,)) for s in lo])
    V = AntiSymmetricTensor(tn.eri, (a, b), (i, j), 1)
    specials = [
        ("t2_1*t2_1 overlap", t21.tensor("ijab").sympy ** 2, []),
        ("t2_1*t2_2 overlap", t21.tensor("ijab").sympy * t22.tensor("ijab").sympy, []),
        ("V/D^2 * Y", V / den((a, b), (i, j)) ** 2 * Y2, []),
        ("V/D^3 * Y", V / den((a, b), (i, j)) ** 3 * Y2, []),
        ("V^2/D^3", V ** 2 / den((a, b), (i, j)) ** 3, []),
        ("t2_1*t1_2*Y", t21.tensor("ijab").sympy * t12.tensor("jb").sympy * Y1, []),
        ("t2_1 t2_1 target", t21.tensor("ikab").sympy * t21.tensor("jkab").sympy,
         [i, j]),
    ]
    for label, sym_expr, tsyms in specials:
        x = Expr(sym_expr, real=True, target_idx=tsyms)
        res, exc = guarded(x.expand_intermediates, True)
        if exc:
            chk.report_direct("itmd:expand:exception", f"{label}: {exc['type']}"
                              f" {exc['msg']}", exc)
            continue
        full = build.expand_mul(Expr(res.sympy, **res.assumptions))
        for subset in ((["t2_1"], ["t_amplitude"]) if quick else
                       (["t2_1"], ["t_amplitude"], None)):
            what = f"factor_intermediates(<fully expanded {label}>, {subset})"
            fx = Expr(full.sympy, **full.assumptions)
            res2, exc = guarded(factor_intermediates, fx, subset)
            chk.count("factor_calls")
            if exc:
                if exc.get("timeout") or exc["type"] == "NotImplementedError":
                    chk.count("refused_or_timeout")
                else:
                    chk.report_direct("itmd:factor:exception", f"{what} raised "
                                      f"{exc['type']}: {exc['msg']}", exc)
                continue
            emit(full, build.expand_mul(Expr(res2.sympy, **res2.assumptions)),
                 f"itmd:factor:special:{label}", what, tsyms)
    # (d') reduce_expr on terms with an explicit orbital-energy fraction whose
    #      numerator cancels a denominator bracket only partially, with unit
    #      and non-unit coefficients (the left-over fraction keeps the
    #      prefactor accumulated so far)
    def en(s_):
        return NonSymmetricTensor(tn.orb_energy, (s_,))
    Vik = AntiSymmetricTensor(tn.eri, (i, k), (a, c), 1)
    d1, d2 = den((i,), (a,)), den((i, k), (a, c))
    fracs = [
        ("complete", Vik * (2 * en(i) - 2 * en(a) + en(k) - en(c)) / (d1 * d2),
         [i, k, a, c]),
        ("partial unit", Vik * (en(i) - en(a) + en(k)) / (d1 * d2),
         [i, k, a, c]),
        ("partial mixed", Vik * (2 * en(i) - 2 * en(a) + en(k)) / (d1 * d2),
         [i, k, a, c]),
        ("partial mixed 3", Vik * (3 * en(i) - 3 * en(a) - en(c)) / (d1 * d2),
         [i, k, a, c]),
        ("partial mixed t2_1", t21.tensor("ikac").sympy *
         AntiSymmetricTensor(tn.eri, (j, k), (b, c), 1) *
         (3 * en(i) - 3 * en(a) + en(k)) / d1, [i, j, a, b]),
    ]
    for label, sym_expr, tsyms in (fracs[1:4] if quick else fracs):
        base = Expr(sym_expr, real=True, target_idx=tsyms)
        base_copy = build.expand_mul(Expr(base.sympy, **base.assumptions))
        res, exc = guarded(reduce_expr, Expr(base.sympy, **base.assumptions))
        chk.count("reduce_calls")
        what = f"reduce_expr({sym_expr})"
        if exc:
            if exc.get("timeout") or exc["type"] == "NotImplementedError":
                chk.count("refused_or_timeout")
            else:
                chk.report_direct("itmd:reduce:exception", f"{what} raised "
                                  f"{exc['type']}: {exc['msg']}", exc)
            continue
        emit(base_copy, build.expand_mul(Expr(res.sympy, **res.assumptions)),
             f"itmd:reduce:fraction:{label}", what, tsyms)
    # (e) long intermediates with mixed prefactors: the fully expanded form of
    #     t2_2 (6 terms) x remainder with the prefactor of ONE term changed,
    #     and with the remainder's own summation index named differently
    from sympy import Add as _Add, Rational as _R
    Wr = AntiSymmetricTensor("Wq", (c,), (d,), 0)
    mixed_sources = [
        ("V*t2_2", AntiSymmetricTensor(tn.eri, (i, j), (a, b), 1) *
         t22.tensor("klcd").sympy, [i, j, k, l, a, b, c, d]),
        ("t2_2*Y", t22.tensor("ijab").sympy * Y2, []),
        ("t2_2*W*Y", t22.tensor("ijab").sympy * Wr *
         Amplitude(tn.right_adc_amplitude, (a, c), (i, j)), [b, d]),
    ]
    # the intermediate's indices intersect with the remainder: terms of the
    # definition merge (prefactor 2) after simplification
    mixed_sources += [
        ("V*t2_2 occ intersect", AntiSymmetricTensor(tn.eri, (i, j), (a, b), 1) *
         t22.tensor("ijcd").sympy, [a, b, c, d]),
        ("V*t2_2 occ+virt intersect", AntiSymmetricTensor(tn.eri, (i, j), (a, b), 1) *
         t22.tensor("ijab").sympy, []),
    ]
    from adcgen.simplify import simplify as _simplify
    for label, sym_expr, tsyms in (mixed_sources if not quick else
                                   mixed_sources[:1] + mixed_sources[3:4]):
        x = Expr(sym_expr, real=True, target_idx=tsyms)
        res, exc = guarded(x.expand_intermediates, True)
        if exc:
            continue
        full = build.expand_mul(Expr(res.sympy, **res.assumptions))
        if "intersect" in label:
            merged, exc = guarded(lambda: _simplify(
                Expr(full.sympy, **full.assumptions).use_symbolic_denominators()
            ).use_explicit_denominators())
            if exc:
                continue
            full = build.expand_mul(Expr(merged.sympy, **merged.assumptions))
        terms_ = list(full.sympy.args) if isinstance(full.sympy, _Add) \
            else [full.sympy]
        if len(terms_) < 3:
            continue
        variants = [(1, _R(1, 2)), (0, 2), (len(terms_) - 1, -1)]
        if "intersect" in label:
            # every term once with a smaller and once with a larger prefactor
            variants = [(p_, f_) for p_ in range(len(terms_))
                        for f_ in (_R(1, 2), 2)]
        for pos, fac in variants:
            mod = list(terms_)
            mod[pos] = mod[pos] * fac
            fx = Expr(_Add(*mod), **full.assumptions)
            pre_ = Expr(fx.sympy, **fx.assumptions)
            what = (f"factor_intermediates(<fully expanded {label}, term "
                    f"{pos} scaled by {fac}>, ['t2_2'])")
            res2, exc = guarded(factor_intermediates, fx, ["t2_2"])
            chk.count("factor_calls")
            if exc:
                if exc.get("timeout") or exc["type"] == "NotImplementedError":
                    chk.count("refused_or_timeout")
                else:
                    chk.report_direct("itmd:factor:exception", f"{what} raised "
                                      f"{exc['type']}: {exc['msg']}", exc)
                continue
            emit(pre_, build.expand_mul(Expr(res2.sympy, **res2.assumptions)),
                 f"itmd:factor:mixed-prefactor:{label}:term{pos}x{fac}", what,
                 tsyms)
    # (f) a long intermediate times a remainder with a contraction of its
    #     own whose summation index is named differently in every term
    m_, n_ = get_symbols("mn")
    e_, f_ = get_symbols("ef")
    Wkm = AntiSymmetricTensor("Wq", (k,), (m_,), 0)
    ren_sources = [
        ("t2_2*W*Y scalar", t22.tensor("klcd").sympy * Wkm *
         Amplitude(tn.right_adc_amplitude, (c, d), (m_, l)), []),
        ("t2_2*W*Y open", t22.tensor("klcd").sympy * Wkm *
         Amplitude(tn.right_adc_amplitude, (c, a), (m_, i)), [i, l, a, d]),
        ("t1_2*W*Y", t12.tensor("kc").sympy * Wkm *
         Amplitude(tn.right_adc_amplitude, (c,), (m_,)), []),
        ("t2_2*W(virt)*Y", t22.tensor("klcd").sympy *
         AntiSymmetricTensor("Wq", (c,), (e_,), 0) *
         Amplitude(tn.right_adc_amplitude, (e_, d), (k, l)), []),
    ]
    for label, sym_expr, tsyms in (ren_sources[:2] if quick else ren_sources):
        x = Expr(sym_expr, real=True, target_idx=tsyms)
        res, exc = guarded(x.expand_intermediates, True)
        if exc:
            continue
        full = build.expand_mul(Expr(res.sympy, **res.assumptions))
        rem_idx = {m_, e_}
        for rep in range(2 if quick else 4):
            # rename only the remainder's own summation index, per term
            from sympy import Add as _Add2
            pool = {"occ": list(get_symbols("mnoi2j2k2l2m2")),
                    "virt": list(get_symbols("efgha2b2c2d2"))}
            for sp in pool:
                r.shuffle(pool[sp])
            new_terms = []
            for q, term in enumerate(full.terms):
                sub = {s_: pool[s_.space][q % len(pool[s_.space])]
                       for s_ in term.contracted if s_ in rem_idx}
                new_terms.append(term.sympy.subs(sub, simultaneous=True))
            fx = Expr(_Add2(*new_terms), **full.assumptions)
            pre_ = Expr(fx.sympy, **fx.assumptions)
            subset = ["t2_2"] if "t2_2" in label else ["t1_2"]
            what = (f"factor_intermediates(<fully expanded {label}, the "
                    f"remainder's summation index renamed per term #{rep}>, "
                    f"{subset})")
            res2, exc = guarded(factor_intermediates, fx, subset)
            chk.count("factor_calls")
            if exc:
                if exc.get("timeout") or exc["type"] == "NotImplementedError":
                    chk.count("refused_or_timeout")
                else:
                    chk.report_direct("itmd:factor:exception", f"{what} raised "
                                      f"{exc['type']}: {exc['msg']}", exc)
                continue
            emit(pre_, build.expand_mul(Expr(res2.sympy, **res2.assumptions)),
                 f"itmd:factor:renamed-dummy:{label}", what, tsyms)
    evs = list(chk.events)
    for i in range(0, len(evs), 40):
        chk.judge_with_header(header, evs[i:i + 40])
    if chk.tier != "quick":
        # system-level workflows (spec/Pipeline.tla): the steps that belong
        # to this property's operations
        from .pipeline import run_pipelines
        run_pipelines(chk, "C11")
    return chk.finish(
        rule="seeded products of 1-2 registered intermediates (t2_1, t1_2, "
             "t2_2, p0_2_oo/vv, t2eri_1..7/A/B, t2sq) with free tensors "
             "(amplitude vectors, generic tensors), random contractions and "
             "targets: expand_intermediates (once / fully), "
             "factor_intermediates on the fully expanded form for random "
             "name/type subsets and max_order, reduce_expr; TLC compares Val "
             "under models in which t-amplitudes and densities come from the "
             "RSPT oracle and every composite intermediate is tabulated from "
             "its registered definition")
