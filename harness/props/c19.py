"""C19 - results are independent of call history, hash seed and tensor names."""
import json
import os
import random
import shutil
import subprocess
import tempfile
import os as _os
REPO = _os.environ.get("VERIF_REPO", "/repo")

from .. import adapter, build, events, tlc
from adcgen.tensor_names import tensor_names as tn

VERIF = os.path.dirname(os.path.dirname(os.path.dirname(
    os.path.abspath(__file__))))

MENU = ["energy2", "amp2ph", "amp2pphh", "ovl2", "m1phph", "t2_2", "psi1",
        "psi2", "get:i3j3a4b7", "generic:5", "amp2ph_k3c3", "expect2",
        "energy3", "amp1pphh_i3", "norm2", "get:k3c3l3d3", "m2phph",
        # the same method with one argument changed: cache keys
        "m1phph_nosub", "m1phph_kcld", "m0phph", "m0phph_nosub", "ovlisr2",
        "tm1ph", "tm1ph_nosub", "ex1phph", "ex0phph", "ex0phph_nosub",
        "ex0phph_2p", "t2_2_klcd", "t2_2_once", "energy2_re", "mvp1",
        "mvp1_nosub", "facA", "facB", "facC", "facD"]
# positions 1..12 are the menu of spec/History.tla
SPEC_MENU = MENU[:12]


def run_worker(reqs, hashseed=0, pkg_root=REPO, timeout=900):
    env = dict(os.environ)
    env["PYTHONHASHSEED"] = str(hashseed)
    env["PYTHONPATH"] = f"{pkg_root}:{VERIF}"
    env["ADCGEN_LOG_LEVEL"] = "ERROR"
    pr = subprocess.run(["/venv/bin/python", "-m", "harness.c19_worker",
                         json.dumps(reqs)], env=env, capture_output=True,
                        text=True, timeout=timeout, cwd=VERIF)
    for line in pr.stdout.splitlines():
        if line.startswith("C19RESULT "):
            return json.loads(line[len("C19RESULT "):])
    raise RuntimeError(f"worker failed: {pr.stderr[-800:]}")


def merge(ref, test, rename=None):
    """Put the ASTs of two processes into one index / name numbering:
    target indices are shared (matched by position), every other index stays
    private to its side; names are matched by string (after the optional
    renaming of the test side back to the default names)."""
    rename = rename or {}
    names = {}

    def nid(n):
        n = rename.get(n, n)
        # t-amplitude / density names carry order suffixes
        for old, new in rename.items():
            if n.startswith(old) and n[len(old):].replace("cc", "").isdigit():
                n = new + n[len(old):]
        if n not in names:
            names[n] = len(names) + 1
        return names[n]
    idx = []
    shared = {}

    def remap(rec, side):
        local = {}
        for pos, t in enumerate(rec["tgt"]):
            if pos not in shared:
                idx.append(rec["idx"][t - 1])
                shared[pos] = len(idx)
            local[t] = shared[pos]

        def ix(i):
            if i not in local:
                idx.append(rec["idx"][i - 1])
                local[i] = len(idx)
            return local[i]
        nm = {k + 1: nid(n) for k, n in enumerate(rec["names"])}

        def obj(o):
            o = dict(o)
            o["u"] = [ix(i) for i in o["u"]]
            o["l"] = [ix(i) for i in o["l"]]
            o["nid"] = nm.get(o["nid"], 0) if o["nid"] else 0
            o["pt"] = [term(t) for t in o["pt"]]
            return o

        def term(t):
            t = dict(t)
            t["objs"] = [obj(o) for o in t["objs"]]
            t["ord"] = []
            return t
        return [term(t) for t in rec["terms"]]
    a = remap(ref, "ref")
    b = remap(test, "test")
    tgt = [shared[p] for p in range(len(ref["tgt"]))]
    return a, b, idx, names, tgt


def step_event(chk, ref, test, what, key, rename=None):
    a, b, idx, names, tgt = merge(ref, test, rename)
    ctx = adapter.Ctx(names=names)
    ctx.idx = idx
    adapter.fill_order(a, tgt)
    adapter.fill_order(b, tgt)
    bkn = events.collect_bk(ctx, [(a, True), (b, False)], (tn.eri, tn.fock))
    szs = build.pick_sizes([a, b], idx, tgt, build.BUDGET[build.TIER],
                           max_models=1)
    models = [events.model(ctx, noa=szs[0][0], nva=szs[0][1], seed=sd,
                           bkn=bkn) for sd in (1, 2)]
    text_equal = ref["text_sub"] == test["text_sub"] if rename is None else True
    ev = {"op": "history_step", "key": key, "what": what, "idx": idx,
          "tgt": sorted(tgt), "names": list(names), "models": models,
          "pre": a, "post": b,
          "tabhint": build.table_hint([a, b], ctx, tgt, szs[0], False),
          "a": {"text_equal": bool(text_equal)},
          "text": {"pre": ref["text_sub"][:300], "post": test["text_sub"][:300]}}
    chk.add_event(ev)


def disjoint_event(chk, sets, what):
    ev = {"op": "disjoint", "key": "history:psi-norm-disjoint", "what": what,
          "idx": [], "tgt": [], "names": [],
          "models": [events.model(adapter.Ctx(), noa=1, nva=1)], "pre": [],
          "post": [], "tabhint": [],
          "a": {"sets": [[list(x) for x in s] for s in sets]},
          "text": {"pre": what, "post": str(sets)[:300]}}
    chk.add_event(ev)


def registry_replay(chk, quick):
    """spec -> code: TLC enumerates every history of registry calls up to
    the depth (spec/Registry.tla, invariants = freshness / identity), prints
    what each call returns and the scalar registry state after it; the
    histories are replayed into adcgen.indices.Indices (fresh registry per
    history) and compared step by step."""
    runs = [("Registry.cfg", None)] if quick else \
        [("Registry.cfg", None), ("Registry_d4.cfg", None)]
    for cfgname, _ in runs:
        res = chk.run_mc("Registry", cfg=cfgname, timeout=1800,
                         what="index registry: pool names unused / distinct, "
                              "generic requests fresh, symbols only grow, "
                              "classes independent (" + cfgname + ")")
        lines = [json.loads(ln)[4:] for ln in res["stdout"].splitlines()
                 if ln.startswith('"REG ')]
        if not lines:
            chk.machinery_errors.append("Registry.tla printed no history")
            return
        os.makedirs(tlc.WORK, exist_ok=True)
        fd, path = tempfile.mkstemp(prefix="reg_", suffix=".jsonl",
                                    dir=tlc.WORK)
        with os.fdopen(fd, "w") as fh:
            fh.write("\n".join(lines) + "\n")
        env = dict(os.environ)
        env["PYTHONPATH"] = f"{REPO}:{VERIF}"
        try:
            pr = subprocess.run(["/venv/bin/python", "-m",
                                 "harness.registry_replay", path], env=env,
                                capture_output=True, text=True, timeout=1800,
                                cwd=VERIF)
        finally:
            os.unlink(path)
        out = [ln for ln in pr.stdout.splitlines()
               if ln.startswith("REGRESULT ")]
        if not out:
            chk.machinery_errors.append("registry replay failed: " +
                                        pr.stderr[-600:])
            return
        r = json.loads(out[0][len("REGRESULT "):])
        chk.count("registry_histories_replayed", r["n"])
        chk.traces_ok += r["n"] - r["n_bad"]
        for b in r["bad"][:3]:
            if "calls" not in b:
                continue
            chk.report_direct(
                f"registry:{b['clause']}",
                f"registry history {b['calls']}: step {b['step']} disagrees "
                f"with spec/Registry.tla ({b['clause']}: {b['detail']})", b)
    if not quick:
        # unbounded counterpart (non-gating for verdicts about the code): the
        # freshness invariant of the abstract registry is inductive
        try:
            pr = subprocess.run([os.path.join(VERIF, "tools",
                                              "apalache_registry.sh")],
                                capture_output=True, text=True, timeout=1800)
            chk.notes["apalache_registry"] = pr.stdout.strip()[-200:]
            if pr.returncode != 0:
                chk.machinery_errors.append("Apalache: the registry invariant "
                                            "is not inductive: " +
                                            pr.stdout[-400:])
        except (OSError, subprocess.TimeoutExpired) as exc:
            chk.notes["apalache_registry"] = f"not run ({exc})"
    chk.add_sample({"registry_histories": "every sequence of <= 3 (menu of "
                    "24 calls) / <= 4 (thorough) explicit and generic "
                    "index requests on two (space, spin) classes"})


def run(chk):
    r = random.Random(chk.seed)
    quick = chk.tier == "quick"
    # histories from the build phase of spec/History.tla
    res = chk.run_mc("History", cfg="History.cfg" if quick else "History_d3.cfg",
                     timeout=900, what="history machine: counters monotone, "
                     "cache stable; emits every history up to the depth")
    hists = []
    seen = set()
    for h in tlc.extract_printed(res["stdout"], "HIST"):
        k = tuple(h[1])
        if k not in seen:
            seen.add(k)
            hists.append([SPEC_MENU[i - 1] for i in h[1]])
    chk.notes["spec_generated_histories"] = len(hists)
    n_h = 14 if quick else 80
    sample = r.sample(hists, min(n_h, len(hists)))
    # deeper seeded histories over the full menu
    for _ in range(4 if quick else 30):
        sample.append([r.choice(MENU) for _ in range(r.randint(3, 5))])
    # make sure the interesting interplay is present in every run
    sample += [["psi1", "amp2ph_k3c3"], ["get:i3j3a4b7", "m2phph"],
               ["psi1", "psi1", "norm2", "psi2"], ["amp2ph", "amp2ph"]]
    # one argument changed between two calls of the same cached method
    pairs = [["m0phph", "m0phph_nosub"], ["m1phph_nosub", "m1phph", "m1phph_kcld"],
             ["ex0phph_nosub", "ex0phph", "ex0phph_2p"], ["tm1ph_nosub", "tm1ph"],
             ["t2_2_once", "t2_2", "t2_2_klcd"], ["energy2_re", "energy2"],
             ["mvp1_nosub", "mvp1"], ["ex1phph", "tm1ph", "ovlisr2"]]
    sample += pairs if not quick else r.sample(pairs, 4)
    # registries shared by the whole process: what a request factors must not
    # depend on the types an earlier request asked for
    sample += [["facA", "facB"], ["facC", "facB", "facD"]] if quick else \
        [["facA", "facB"], ["facC", "facB", "facD"], ["facD", "facA", "facB"],
         ["facB", "facC", "facA", "facD"]]
    seeds = [0, 1] if quick else [0, 1, 2, 12345]
    # reference: each request alone in a fresh process, hash seed 0
    needed = sorted({q for h in sample for q in h
                     if not q.startswith(("get:", "generic:"))})
    reference = {}
    for q in needed:
        reference[q] = run_worker([q], 0)[0]
        chk.count("processes")
    for hi, h in enumerate(sample):
        for sd in (seeds if hi % 3 == 0 else seeds[:1] if hi % 3 == 1
                   else seeds[-1:]):
            out = run_worker(h, sd)
            chk.count("processes")
            chk.count("history_steps", len(h))
            psi_sets = []
            for step, rec in enumerate(out):
                q = rec["req"]
                what = f"history {h} step {step + 1} ({q}), PYTHONHASHSEED={sd}"
                if rec["kind"] == "exception":
                    chk.report_direct(f"history:{q}:exception", f"{what} raised "
                                      f"{rec['exc']}", rec)
                elif rec["kind"] == "indices":
                    psi_sets.append(rec["contracted"])
                elif rec["kind"] == "expr":
                    ref = reference[q]
                    if ref["kind"] != "expr":
                        continue
                    step_event(chk, ref, rec, what, f"history:{q}")
            if len(psi_sets) >= 2:
                disjoint_event(chk, psi_sets, f"psi / norm_factor results of "
                               f"history {h} (seed {sd})")
    if len(sample):
        chk.add_sample({"history": sample[0], "seeds": seeds})
    # tensor-name configurations: scratch copies of the package; one with
    # single-letter names, one with names of different lengths
    cfg = json.load(open(os.path.join(REPO, "adcgen/tensor_names.json")))
    configs = [
        dict(cfg, eri="W", fock="h", gs_amplitude="s", orb_energy="x",
             sym_orb_denom="Z", operator="g", gs_density="r"),
        dict(cfg, eri="Vee", fock="fk", gs_amplitude="amp", orb_energy="eps",
             sym_orb_denom="Den", operator="op", gs_density="rhoq"),
    ]
    if not quick:
        configs.append(dict(cfg, gs_amplitude="tq", gs_density="p",
                            eri="U", operator="dd"))
    name_reqs = [["energy2", "amp2ph", "t2_2", "p0_2_exp"],
                 ["m1phph", "amp2ph", "p0_2_exp", "p0_2_vv_exp"]] if quick else \
        [["energy2", "energy3", "amp2ph", "amp2pphh", "m1phph", "m2phph",
          "t2_2", "ovl2", "expect2", "p0_2_exp", "p0_2_vv_exp",
          "p0_3_ov_exp"]] * 3
    for newcfg, rqs in zip(configs, name_reqs):
        scratch = tempfile.mkdtemp(prefix="adcgen_names_")
        try:
            shutil.copytree(os.path.join(REPO, "adcgen"), os.path.join(scratch, "adcgen"))
            cfgp = os.path.join(scratch, "adcgen", "tensor_names.json")
            json.dump(newcfg, open(cfgp, "w"))
            rename = {newcfg[k]: cfg[k] for k in cfg if newcfg[k] != cfg[k]}
            for q in rqs:
                rec = run_worker([q], 0, pkg_root=scratch)[0]
                chk.count("processes")
                what = f"{q} with tensor_names.json {newcfg}"
                if rec["kind"] == "exception":
                    chk.report_direct(f"names:{q}:exception", f"{what} raised "
                                      f"{rec['exc']}", rec)
                    continue
                if q not in reference:
                    reference[q] = run_worker([q], 0)[0]
                    chk.count("processes")
                # names occurring in the renamed result must be the new ones
                bad = [n for n in rec["names"] if n in cfg.values() and
                       n not in newcfg.values() and n not in ("X", "Y")]
                if bad:
                    chk.report_direct(f"names:{q}:default-name-left",
                                      f"{what}: default names {bad} still "
                                      "occur", rec)
                    continue
                step_event(chk, reference[q], rec, what, f"names:{q}",
                           rename=rename)
        finally:
            shutil.rmtree(scratch, ignore_errors=True)
    # the index registry as a state machine: every history of
    # spec/Registry.tla replayed into the real class
    registry_replay(chk, quick)
    chk.judge(chunk=120)
    return chk.finish(
        rule="histories = all request sequences of the build phase of "
             "spec/History.tla (sampled) + seeded longer ones over a menu of "
             "derivations, explicit / generic index requests and cached "
             "results; each history runs in a fresh interpreter under several "
             "PYTHONHASHSEED values; every step is compared by TLC with the "
             "same request in a fresh process (value on all target "
             "assignments; literal text after substitute_contracted); "
             "wavefunctions / norm factors of one process share no contracted "
             "index; a scratch copy of the package with another "
             "tensor_names.json must differ only by the renaming")
