"""spec/Helpers.tla: the small pure functions (compositions of orders, Taylor
series of S^-1/2 and of the norm factor, ADC(n) block orders, lowest
available index names, index-string splitting) specified independently,
enumerated by TLC and replayed into the real functions."""
import json
import os
import subprocess
import tempfile
import os as _os
REPO = _os.environ.get("VERIF_REPO", "/repo")

from .. import tlc

WHAT = {"gto": "func.gen_term_orders", "stay": "expand_S_taylor",
        "norm": "expand_norm_factor",
        "bord": "block_order / max_ptorder_spaces (pp, ip, ea, dip, dea)",
        "low": "get_lowest_avail_indices", "split": "split_idx_string",
        "mti": "minimize_tensor_indices"}


def run_helpers(chk, funcs):
    res = chk.run_mc("Helpers", cfg="Helpers.cfg", timeout=900,
                     what="pure helper functions: every enumerated argument "
                          "tuple with the prescribed result; the two "
                          "statements of split agree, compositions / lowest "
                          "names / block orders well formed")
    lines = []
    for ln in res["stdout"].splitlines():
        if ln.startswith('"HLP '):
            body = json.loads(ln)[4:]
            if json.loads(body)["c"]["f"] in funcs:
                lines.append(body)
    if not lines:
        chk.machinery_errors.append("Helpers.tla printed no case for "
                                    f"{funcs}")
        return
    os.makedirs(tlc.WORK, exist_ok=True)
    fd, path = tempfile.mkstemp(prefix="hlp_", suffix=".jsonl", dir=tlc.WORK)
    with os.fdopen(fd, "w") as fh:
        fh.write("\n".join(lines) + "\n")
    env = dict(os.environ)
    env["PYTHONPATH"] = f"{REPO}:{tlc.VERIF}"
    env["ADCGEN_LOG_LEVEL"] = "ERROR"
    try:
        pr = subprocess.run(["/venv/bin/python", "-m",
                             "harness.helpers_replay", path], env=env,
                            capture_output=True, text=True, timeout=900,
                            cwd=tlc.VERIF)
    finally:
        os.unlink(path)
    out = [ln for ln in pr.stdout.splitlines() if ln.startswith("HLPRESULT ")]
    if not out:
        chk.machinery_errors.append("helpers replay failed: " +
                                    pr.stderr[-600:])
        return
    r = json.loads(out[0][len("HLPRESULT "):])
    chk.count("helper_cases_replayed", r["n"])
    chk.traces_ok += r["n"] - r["n_bad"]
    chk.notes["helper_functions"] = {WHAT[k]: v
                                     for k, v in r["per_function"].items()}
    seen = set()
    for b in r["bad"]:
        f = b["case"]["f"]
        if f in seen:
            continue
        seen.add(f)
        chk.report_direct(f"helper:{f}",
                          f"{WHAT[f]} on {b['case']}: {b['detail']} "
                          "(spec/Helpers.tla)", b)
