"""C07 - simplify preserves the value and merges alpha-equivalent terms."""
import random

from adcgen.expr_container import Expr
from adcgen.simplify import simplify

from .. import adapter, build, gen
from ..runner import guarded


def assumptions_record(expr, ctx):
    return {"real": bool(expr.real), "sym": list(expr.sym_tensors),
            "antisym": list(expr.antisym_tensors)}


def tgt_record(expr, ctx):
    prov = expr.provided_target_idx
    return ["einstein"] if prov is None else \
        ["explicit"] + sorted(ctx.index(s) for s in prov)


def make_case(g, r, max_base=3, max_var=3, spins=False):
    for _ in range(50):
        try:
            return _make_case(g, r, max_base, max_var, spins)
        except RuntimeError:
            continue
    raise RuntimeError("could not generate a case")


def _make_case(g, r, max_base=3, max_var=3, spins=False):
    real = r.random() < 0.5
    g.new_expression(real)
    explicit = r.random() < 0.4
    targets = g.targets()
    terms, cls = [], []
    for _ in range(r.randint(1, max_base)):
        hyper = 0.15 if explicit else 0.0
        base = g.term(targets, hyper_prob=hyper,
                      repeat_targets=0.35 if explicit else 0.0,
                      kinds=r.choice(["AAMSNVfD", "VVfMM", "AAVf", "MMVD",
                                      "ASNV", "aN", "asN", "aaNV", "sNN",
                                      "aAN", "aa", "as", "aaa"]))
        terms.append(base)
        rep = len(terms)
        cls.append((rep, {}))
        for _ in range(r.randint(0, max_var)):
            scale = g.pref()
            # sympy does not collect a*T + sqrt(2)*b*T: keep the irrational
            # part of the prefactor fixed within a class
            scale = (scale[0], scale[1], base["pref"][2])
            if r.random() < 0.2:      # exact cancellation
                scale = (-base["pref"][0], base["pref"][1], base["pref"][2])
            var, ren = g.alpha_variant(base, targets, scale=scale)
            terms.append(var)
            # witness maps the variant's index back onto the base term
            cls.append((rep, {v: k for k, v in ren.items()}))
    order = list(range(len(terms)))
    r.shuffle(order)
    return real, explicit, targets, terms, cls, order


def structured_terms(g, r):
    """A target index that occurs on several one-particle bra-ket
    (anti)symmetric tensors together with ONE contracted index; the two
    alpha-variants name the contracted index before / after the target, so
    the canonical bra-ket orientation of the tensors differs."""
    sp = r.choice("ov")
    base = gen.BASE[sp]
    pos = r.randint(1, len(base) - 2)
    t = (base[pos], "")
    before = (r.choice(base[:pos]), "")
    after = (r.choice(base[pos + 1:]), "")
    n = r.choice([2, 2, 3])
    names = r.sample(["Kd", "Hd", "Gd", "Rd"], n)
    bks = [r.choice([1, -1, -1]) for _ in range(n)]
    orient = [r.random() < 0.5 for _ in range(n)]
    exps = [r.choice([1, 1, 1, 3]) for _ in range(n)]

    def term(c, pref):
        objs = []
        for nm, bk, o, e_ in zip(names, bks, orient, exps):
            up, lo = ([t], [c]) if o else ([c], [t])
            objs.append(dict(kind="A", name=nm, upper=up, lower=lo, bk=bk,
                             exp=e_))
        return dict(pref=pref, objs=objs)
    t1 = term(before, g.pref(sqrt_prob=0))
    t2 = term(after, g.pref(sqrt_prob=0))
    cls = [(1, {}), (1, {after: before})]
    return [t], [t1, t2], cls


def run(chk):
    r = random.Random(chk.seed)
    n_cases = 120 if chk.tier == "quick" else 1500
    g = gen.Gen(chk.seed, spaces="ov", numbered_prob=0.15)
    gs = gen.Gen(chk.seed + 1, spaces="ov", spins=True, numbered_prob=0.1)
    # three and more index classes: general next to occupied / virtual indices
    gq = gen.Gen(chk.seed + 2, spaces="ovg", general_prob=0.35,
                 numbered_prob=0.1)
    for case in range(n_cases):
        gg = gs if case % 5 == 4 else gq if case % 5 == 2 else g
        if case % 6 == 5:
            real, explicit = False, True
            targets, terms, cls = structured_terms(gg, r)
        else:
            real, explicit, targets, terms, cls, order = make_case(
                gg, r, max_base=3 if chk.tier == "quick" else 5)
        tsyms = [gen.sym_of(t) for t in targets]
        sym_terms = [gen.build_term(t) for t in terms]
        from sympy import Add
        total = Add(*sym_terms)
        kw = {"real": real}
        if explicit:
            kw["target_idx"] = tsyms
        pre = Expr(total, **kw)
        # witness is only usable if sympy kept every generated term apart
        pre_terms = [t.sympy for t in pre.terms]
        pre_copy = Expr(pre.sympy, **pre.assumptions)
        post, exc = guarded(simplify, pre)
        chk.count("simplify_calls")
        key = "simplify:grammar"
        if exc is not None:
            chk.report_direct(key + ":exception",
                              f"simplify raised {exc['type']}: {exc['msg']}",
                              {"input": str(pre_copy), "exc": exc})
            continue
        try:
            ev, ctx = build.valpres(pre_copy, post, op="simplify", key=key,
                                    what="simplify(grammar sum)",
                                    tgt_syms=tsyms)
        except adapter.Unsupported as u:
            chk.count("unsupported")
            continue
        a = {"tgt_pre": tgt_record(pre_copy, ctx),
             "tgt_post": tgt_record(post, ctx),
             "asm_pre": assumptions_record(pre_copy, ctx),
             "asm_post": assumptions_record(post, ctx),
             "has_cls": False, "cls": []}
        # alpha witness: map every AST term of pre to its generated term
        if len(ev["pre"]) == len(terms):
            # identify AST term k with generated term by rebuilding each
            # generated term separately and comparing projected ASTs
            made = []
            for t in sym_terms:
                e1 = Expr(t, **kw)
                c2 = adapter.Ctx()
                c2.__dict__.update(idx_ids=ctx.idx_ids, idx=ctx.idx,
                                   idx_objs=ctx.idx_objs, names=ctx.names)
                tt = adapter.project_expr(e1, c2)
                made.append(tt[0] if len(tt) == 1 else None)

            def strip(t):
                return {k: v for k, v in t.items() if k != "ord"}
            pos = {}
            for k, pt in enumerate(ev["pre"]):
                for gk, mt in enumerate(made):
                    if mt is not None and gk not in pos.values() and \
                            strip(mt) == strip(pt):
                        pos[k] = gk
                        break
            if len(pos) == len(terms):
                inv = {gk: k for k, gk in pos.items()}
                n_idx = len(ctx.idx)
                cl = []
                ok = True
                for k in range(len(terms)):
                    rep, ren = cls[pos[k]]
                    renseq = list(range(1, n_idx + 1))
                    try:
                        for src, dst in ren.items():
                            renseq[ctx.idx_ids[gen.sym_of(src)] - 1] = \
                                ctx.idx_ids[gen.sym_of(dst)]
                    except KeyError:
                        ok = False
                        break
                    cl.append({"r": inv[rep - 1] + 1, "ren": renseq})
                if ok:
                    a["has_cls"] = True
                    a["cls"] = cl
                    chk.count("with_alpha_witness")
        ev["a"] = a
        chk.add_event(ev)
        chk.add_sample({"pre": ev["text"]["pre"][:300],
                        "post": ev["text"]["post"][:300],
                        "targets": [t[0] + t[1] for t in targets],
                        "models": ev["_sizes"]})
    chk.judge()
    if chk.tier != "quick":
        # system-level workflows (spec/Pipeline.tla): the steps that belong
        # to this property's operations
        from .pipeline import run_pipelines
        run_pipelines(chk, "C07")
    if chk.tier != "quick":
        # generated workflows (spec/PipelineGen.tla -> real API -> Pipeline.tla):
        # the steps that belong to this property's operations
        from .chains import run_chains
        run_chains(chk, 60, cfg="PipelineGen_l6.cfg", only_prop="C07")
    return chk.finish(
        rule="seeded grammar sums (1..5 base terms, each with 0..3 planted "
             "alpha-variants incl. exact cancellations, explicit/Einstein "
             "targets, real/complex, spin labels); an event is one simplify "
             "call judged by TLC on all target assignments of 1-2 model "
             "sizes x 2 seeds; non-trivial = accepted event with >1 term")
