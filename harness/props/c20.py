"""C20 - simplify_unitary preserves the value for orthogonal tensors."""
import random

from sympy import Mul, Pow

from adcgen.expr_container import Expr
from adcgen.indices import get_symbols
from adcgen.simplify import simplify_unitary
from adcgen.sympy_objects import (NonSymmetricTensor, AntiSymmetricTensor,
                                  SymmetricTensor)

from .. import adapter, build, gen, tlc, linalg
from ..runner import guarded

NAMES = "pqrstu"
QUIRK_KEY = "simplify_unitary:trace-pair"


def is_quirk(us, co, tgt):
    """Spec-level predicate Unitary!KnownQuirk (syntactic)."""
    def occ(x):
        return sum((a == x) + (b == x) for a, b in us) + list(co).count(x)
    for a in range(len(us)):
        for b in range(a + 1, len(us)):
            if us[a] == us[b]:
                x, y = us[a]
                if x not in tgt and y not in tgt and occ(x) == 2 and \
                        occ(y) == 2:
                    return True
    return False


def emit(chk, pre, post, key, what, tsyms, uspace, evd, sizes, general):
    try:
        no, nv = sizes
        models = []
        ev, ctx = build.valpres(pre, post, op="simplify_unitary", key=key,
                                what=what, tgt_syms=tsyms, sizes=[sizes],
                                seeds=(1,))
    except adapter.Unsupported:
        chk.count("unsupported")
        return
    base = ev["models"][0]
    for sd in (3, 8):
        m = dict(base)
        m["seed"] = sd
        m["rU"] = ctx.names.get("U", 0)
        m["umat"] = linalg.block_orthogonal(no, nv, sd, general=general)
        models.append(m)
    ev["models"] = models
    ev["a"] = {"evaluate_deltas": bool(evd), "uspace": uspace}
    chk.add_event(ev)
    return ev


def spec_case(chk, us, co, tgt, mode):
    syms = get_symbols(NAMES)
    objs = [NonSymmetricTensor("U", (syms[x - 1], syms[y - 1]))
            for x, y in us]
    if co:
        objs.append(NonSymmetricTensor("n", [syms[x - 1] for x in co]))
    term = Mul(*objs)
    tsyms = [syms[x - 1] for x in tgt]
    key = QUIRK_KEY if is_quirk([tuple(u) for u in us], co, tgt) else \
        "simplify_unitary:spec-case"
    for evd in (False, True):
        if mode == "einstein":
            pre = Expr(term)
        else:
            pre = Expr(term, target_idx=tsyms)
        post, exc = guarded(simplify_unitary, pre, "U", evd)
        chk.count("simplify_unitary_calls")
        what = f"simplify_unitary({term}, 'U', evaluate_deltas={evd}) " \
               f"targets={mode}:{tsyms}"
        if exc is not None:
            chk.report_direct(key + ":exception", what + f" raised "
                              f"{exc['type']}: {exc['msg']}", {"input": what})
            continue
        k2 = key
        emit(chk, pre, post, k2, what, tsyms, "g", evd, (2, 1), True)


def grammar_case(chk, g, r):
    """U of different kinds / spaces with a grammar remainder."""
    sp = r.choice("ovg")
    kind = r.choice(["N", "N", "A", "S"])
    pool = list(gen.BASE[sp])
    r.shuffle(pool)
    nu = r.choice([2, 2, 3, 4])
    # index pattern for the chain of U's: random pairs from a small pool
    small = pool[:r.randint(2, 4)]

    def mk(x, y):
        sx, sy = get_symbols([x, y])
        if kind == "N":
            return NonSymmetricTensor("U", (sx, sy))
        if kind == "A":
            return AntiSymmetricTensor("U", (sx,), (sy,))
        return SymmetricTensor("U", (sx,), (sy,))
    factors = []
    for _ in range(nu):
        x, y = r.sample(small, 2)
        factors.append(mk(x, y))
    used = set(small)
    # remainder: tensors that carry some of the indices and new ones
    rem = []
    for _ in range(r.randint(0, 2)):
        n = r.randint(1, 3)
        names = [r.choice(small + [g.fresh_name(sp, used)]) for _ in range(n)]
        used.update(names)
        rem.append(NonSymmetricTensor(r.choice(["n", "m"]) + str(n),
                                      get_symbols(names)))
    if rem and r.random() < 0.3:
        # a polynomial remainder: a bracket of two tensors on the same indices
        # (when a pair resolves to 1, sympy distributes numbers over it)
        t0 = rem[0]
        rem[0] = t0 + NonSymmetricTensor("k" + str(len(t0.indices)), t0.indices)
        if r.random() < 0.5:
            rem.append(r.choice([2, -1, 3]))
    term = Mul(*factors, *rem)
    if term == 0 or not term.atoms(NonSymmetricTensor, AntiSymmetricTensor):
        return
    explicit = r.random() < 0.4
    pre0 = Expr(term)
    ein = list(pre0.terms[0].target)
    if explicit:
        allidx = sorted(set(pre0.terms[0].idx), key=lambda s: s.name)
        extra = [s for s in allidx if s not in ein]
        tsyms = ein + ([r.choice(extra)] if extra and r.random() < 0.8 else [])
        pre = Expr(term, target_idx=tsyms)
    else:
        tsyms = ein
        pre = pre0
    evd = r.random() < 0.5
    # quirk predicate on the AST level
    tm = pre.terms[0]
    us = []
    for o in tm.objects:
        if o.name == "U":
            us += [tuple(o.idx)] * int(o.exponent)
    cnt = {}
    for s in tm.idx:
        cnt[s] = cnt.get(s, 0) + 1
    quirk = any(us[a] == us[b] and all(cnt[s] == 2 and s not in tsyms
                                       for s in us[a])
                for a in range(len(us)) for b in range(a + 1, len(us)))
    key = QUIRK_KEY if quirk else "simplify_unitary:grammar"
    post, exc = guarded(simplify_unitary, pre, "U", evd)
    chk.count("simplify_unitary_calls")
    what = f"simplify_unitary({term}, 'U', evaluate_deltas={evd}) " \
           f"targets={'explicit' if explicit else 'einstein'}:{tsyms}"
    if exc is not None:
        chk.report_direct(key + ":exception", what + f" raised {exc['type']}: "
                          f"{exc['msg']}", {"input": what})
        return
    ev = emit(chk, pre, post, key, what, tsyms, sp, evd, (3, 3), sp == "g")
    if ev:
        chk.add_sample({"call": what, "post": str(post)})


def run(chk):
    r = random.Random(chk.seed)
    if chk.tier == "quick":
        configs = [("Unitary_n4_u2.cfg", True)]
        n_grammar = 150
    else:
        configs = [("Unitary_n4_u3.cfg", True),
                   ("Unitary_n5_u2.cfg", True)]
        n_grammar = 2500
    total = 0
    for cfg, _ in configs:
        res = chk.run_mc("Unitary", cfg=cfg, timeout=3000,
                         what="transcription of simplify_unitary satisfies "
                              "the C20 contract under an orthogonal model "
                              "")
        seen = set()
        for c in tlc.extract_printed(res["stdout"], "CASE"):
            sig = repr(c)
            if sig in seen:
                continue
            seen.add(sig)
            _, us, co, tgt, mode = c
            spec_case(chk, us, co, tgt, mode)
        total += len(seen)
    chk.notes["spec_generated_cases"] = total
    chk.notes["exhaustive"] = True
    g = gen.Gen(chk.seed, spaces="ovg")
    for _ in range(n_grammar):
        grammar_case(chk, g, r)
    # pairs next to a polynomial remainder only
    p_, q_, r_, s_ = get_symbols("pqrs")
    Uf = lambda x, y: NonSymmetricTensor("U", (x, y))  # noqa
    A1 = lambda *ix: NonSymmetricTensor("n" + str(len(ix)), ix)  # noqa
    B1 = lambda *ix: NonSymmetricTensor("k" + str(len(ix)), ix)  # noqa
    for term, tsy in [
            (Uf(p_, q_) ** 2 * (A1(q_) + B1(q_)), [q_]),
            (2 * Uf(p_, q_) ** 2 * (A1(q_) + B1(q_)), [q_]),
            (Uf(p_, q_) * Uf(p_, r_) * (A1(q_, r_) + B1(q_, r_)), []),
            (3 * Uf(q_, p_) * Uf(r_, p_) * (A1(q_, r_) - B1(r_, q_)), []),
            (Uf(p_, q_) ** 3 * Uf(p_, r_) * (A1(r_) + B1(r_)), [q_, r_]),
            (Uf(p_, q_) * Uf(p_, r_) * (A1(q_) + B1(q_)) * (A1(r_) + 2 * B1(r_)),
             [])]:
        for evd in (False, True):
            pre = Expr(term, target_idx=tsy)
            post, exc = guarded(simplify_unitary, pre, "U", evd)
            chk.count("simplify_unitary_calls")
            what = (f"simplify_unitary({term}, 'U', evaluate_deltas={evd}) "
                    f"targets=explicit:{tsy}")
            if exc is not None:
                chk.report_direct("simplify_unitary:polynomial:exception",
                                  what + f" raised {exc['type']}: {exc['msg']}",
                                  {"input": what})
                continue
            emit(chk, pre, post, "simplify_unitary:polynomial", what, tsy, "g",
                 evd, (3, 3), True)
    chk.judge(chunk=1500)
    return chk.finish(
        rule="(1) every input of the build phase of spec/Unitary.tla "
             "(multisets of <= N factors U_xy on a universe of general "
             "indices x remainder index sets x Einstein/explicit targets) "
             "through simplify_unitary with evaluate_deltas off and on; (2) "
             "seeded chains of 2-4 U factors (non-symmetric / antisymmetric "
             "/ symmetric kind; occ, virt, general space) with remainder "
             "tensors.  TLC judges Val under orthogonal matrices (certificate "
             "re-verified in TLA+) and the untouched clause.")
