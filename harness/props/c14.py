"""C14 - removing / differentiating by a tensor undoes a contraction."""
import random

from sympy import Add, Mul, Rational

from adcgen.derivative import derivative
from adcgen.expr_container import Expr
from adcgen.indices import get_symbols
from adcgen.simplify import remove_tensor
from adcgen.sympy_objects import (AntiSymmetricTensor, SymmetricTensor,
                                  Amplitude, NonSymmetricTensor)

from .. import adapter, build, events, gen
from ..runner import guarded

CLS = {"A": AntiSymmetricTensor, "S": SymmetricTensor, "M": Amplitude}


def lowest_names(space, used):
    base = gen.BASE[space]
    k = 0
    while True:
        suffix = k // len(base)
        n = base[k % len(base)] + (str(suffix) if suffix else "")
        k += 1
        if n not in used:
            yield n


def block_indices(block, target_names):
    """minimal non-target index names of a tensor block (in Obj.idx order)"""
    gens = {sp: lowest_names(sp, target_names) for sp in "ovg"}
    return [next(gens[c]) for c in block]


def make_tensor(kind, name, nu, nl, bk, idx_names):
    syms = get_symbols(idx_names)
    if kind == "N":
        return NonSymmetricTensor(name, syms)
    if kind == "M":      # Obj.idx: lower then upper
        return Amplitude(name, syms[nl:], syms[:nl], bk)
    return CLS[kind](name, syms[:nu], syms[nu:], bk)


def shape_for(r):
    kind = r.choice(["A", "A", "S", "N", "M", "M"])
    if kind == "N":
        nu, nl = r.choice([(1, 0), (2, 0), (3, 0)])
        return kind, "q", nu, nl, 0
    if kind == "M":
        name = r.choice(["X", "Y", "t1"])
        nu, nl = r.choice([(1, 1), (2, 2), (1, 2), (2, 1), (0, 1)])
        return kind, name, nu, nl, 0
    nu, nl = r.choice([(1, 1), (2, 2), (2, 1), (1, 1), (2, 2), (2, 0)])
    bk = r.choice([0, 1, -1]) if nu == nl else 0
    return kind, ("Tq" if kind == "A" else "Ts"), nu, nl, bk


def case(chk, g, r, mode):
    g.new_expression(False)
    kind, name, nu, nl, bk = shape_for(r)
    targets = g.targets(n=r.choice([0, 0, 1, 2]))
    tnames = {t[0] for t in targets}
    spaces_u = ["v"] * nu if kind == "M" else [None] * nu
    spaces_l = ["o"] * nl if kind == "M" else [None] * nl
    tshape = dict(kind=kind, name=name, nu=nu, nl=nl, su=spaces_u,
                  sl=spaces_l, bk=bk)
    terms = []
    for _ in range(r.randint(1, 3)):
        n_t = 1 if r.random() < 0.8 else 2
        others = [g.obj_shape(r.choice(["AANN", "AVN", "NNS", "ANf"]))
                  for _ in range(r.randint(1, 2))]
        shapes = [dict(tshape, su=list(spaces_u), sl=list(spaces_l))
                  for _ in range(n_t)] + others
        try:
            t = g.term(targets, shapes=shapes, trace_prob=0.0)
        except RuntimeError:
            return
        # derivative: the tensor must not carry target indices (the
        # returned block would then be indexed by them as well)
        if mode == "derivative" and any(
                ix[0] in tnames for o in t["objs"] if o["name"] == name
                for ix in o["upper"] + o["lower"]):
            chk.count("derivative_target_on_tensor_skipped")
            return
        if mode == "derivative" and r.random() < 0.2:
            for o in t["objs"]:
                if o["name"] == name and kind != "M":
                    o["exp"] = 2
                    break
        terms.append(t)
    # squared tensors contract their indices: skip those with exp 2 on a
    # tensor that carries targets (cannot happen here)
    total = gen.build_sum(terms)
    if total == 0:
        return
    tsyms = [gen.sym_of(x) for x in targets]
    assume = {}
    if bk == 1:
        assume["sym_tensors"] = [name]
    elif bk == -1:
        assume["antisym_tensors"] = [name]
    # scalars: with an explicitly empty target declaration (what
    # diagonalize_fock / expand_intermediates leave behind) or none at all
    if not tsyms and r.random() < 0.5:
        expr = Expr(total, **assume)
    else:
        expr = Expr(total, target_idx=tsyms, **assume)
    pre_copy = Expr(expr.sympy, **expr.assumptions)
    if mode == "remove":
        res, exc = guarded(remove_tensor, expr, name)
        what = f"remove_tensor({total}, '{name}')"
    else:
        res, exc = guarded(derivative, expr, name)
        what = f"derivative({total}, '{name}')"
    chk.count(mode + "_calls")
    key = f"{mode}:{kind}:{nu}{nl}:bk{bk}"
    repeated = any(len(set(o["upper"] + o["lower"])) < len(o["upper"] + o["lower"])
                   for t in terms for o in t["objs"] if o["name"] == name)
    if repeated and mode == "derivative":
        key = "derivative:repeated-index-on-tensor"
    if exc:
        if exc["type"] in ("NotImplementedError",):
            chk.count("refused")
            return
        chk.report_direct(f"{mode}:exception", f"{what[:400]} raised "
                          f"{exc['type']}: {exc['msg']}", exc)
        return
    # the expression each block is compared with
    if mode == "remove":
        if any(len(k) != 1 for k in res):
            chk.count("multi_occurrence_skipped")
            return
        pre = pre_copy
        blocks_in = [(k[0], v) for k, v in res.items() if k[0] != "none"]
        rest = [v for k, v in res.items() if k[0] == "none"]
        tname = name
    else:
        # first-order change: one occurrence (one power) replaced by dT
        dterms = []
        for t in terms:
            for pos, o in enumerate(t["objs"]):
                if o["name"] != name:
                    continue
                e_ = o.get("exp", 1)
                objs = [dict(x) for x in t["objs"]]
                objs[pos] = dict(o, name="dT", exp=1)
                if e_ > 1:
                    objs.append(dict(o, exp=e_ - 1))
                pref = (t["pref"][0] * e_, t["pref"][1], t["pref"][2])
                dterms.append(dict(pref=pref, objs=objs))
        dsum = gen.build_sum(dterms)
        pre = Expr(dsum, target_idx=tsyms, **(
            {"sym_tensors": ["dT", name]} if bk == 1 else
            {"antisym_tensors": ["dT", name]} if bk == -1 else {}))
        blocks_in = [(k[0] if not k[1] or set(k[1]) == {"n"} else None, v)
                     for k, v in res.items()]
        rest = []
        tname = "dT"
    ctx = adapter.Ctx()
    try:
        tp = adapter.project_expr(pre, ctx)
    except adapter.Unsupported:
        chk.count("unsupported")
        return
    tgt = [ctx.index(s) for s in tsyms]
    blocks = []
    sides = [tp]
    for blk, bexpr in blocks_in:
        if blk is None or "_" in str(blk):
            chk.count("spin_block_skipped")
            return
        idx_names = block_indices(blk, tnames)
        if len(idx_names) != nu + nl:
            chk.report_direct(f"{mode}:block-key", f"{what[:300]}: block key "
                              f"{blk} does not have {nu + nl} indices", {})
            return
        T_B = make_tensor(kind, tname, nu, nl, bk, idx_names)
        if T_B == 0:
            continue
        rsym = bexpr.sympy if hasattr(bexpr, "sympy") else bexpr
        prod = Expr(T_B * rsym, target_idx=tsyms).expand()
        try:
            pp = adapter.project_expr(prod, ctx)
            rr = adapter.project_expr(Expr(rsym).expand(), ctx)
        except adapter.Unsupported:
            chk.count("unsupported")
            return
        tidx = [ctx.index(s) for s in get_symbols(idx_names)]
        blocks.append({"prod": pp, "rexpr": rr, "tidx": tidx, "nu": nu,
                       "amp": bool(kind == "M" and name in ("X", "Y")),
                       "bk": bk, "kind": kind, "block": blk})
        sides += [pp, rr]
    for v in rest:      # terms without the tensor are returned unchanged
        pp = adapter.project_expr(Expr(v.sympy, target_idx=tsyms).expand(), ctx)
        blocks.append({"prod": pp, "rexpr": [], "tidx": [], "nu": 0,
                       "amp": False, "bk": 0, "kind": "none", "block": "none"})
        sides.append(pp)
    if not blocks:
        return
    for s_ in sides:
        adapter.fill_order(s_, tgt)
    for b in blocks:
        adapter.fill_order(b["rexpr"], tgt + b["tidx"])
    bkn = events.collect_bk(ctx, [(tp, True)] + [(s_, False) for s_ in sides[1:]],
                            assume.get("sym_tensors", []) +
                            (["dT"] if bk == 1 else []),
                            assume.get("antisym_tensors", []) +
                            (["dT"] if bk == -1 else []))
    szs = build.pick_sizes(sides, ctx.idx, tgt, build.BUDGET[build.TIER],
                           max_models=1)
    models = [events.model(ctx, noa=szs[0][0], nva=szs[0][1], seed=sd, bkn=bkn)
              for sd in (1, 2)]
    # weights of blocks with "none" key: 1 (BlockWeight gives 1 for empty)
    ev = {"op": "remove_tensor", "key": key, "what": what[:500],
          "idx": ctx.idx, "tgt": sorted(tgt), "names": ctx.name_list(),
          "models": models, "pre": tp, "post": [],
          "tabhint": [[] for _ in ctx.names],
          "a": {"blocks": blocks, "what": mode,
                "checksym": kind in ("A", "S", "M")},
          "text": {"pre": str(total)[:400],
                   "post": str({k: str(v)[:150] for k, v in res.items()})[:800]}}
    chk.add_event(ev)
    if chk.counters.get(mode + "_calls", 0) % 20 == 1:
        chk.add_sample({"call": what[:300], "blocks": [b["block"] for b in blocks]})


def run(chk):
    r = random.Random(chk.seed)
    quick = chk.tier == "quick"
    g = gen.Gen(chk.seed, spaces="ov", numbered_prob=0.05)
    for _ in range(400 if quick else 4000):
        case(chk, g, r, "remove")
        case(chk, g, r, "derivative")
    chk.judge(chunk=300)
    return chk.finish(
        rule="seeded sums in which a tensor (antisymmetric / symmetric / "
             "non-symmetric / amplitude, ranks (1,1),(2,2),(2,1),(1,2),(2,0), "
             "bra-ket 0/+1/-1, ADC amplitude vectors X/Y) occurs once (remove) "
             "or several times / squared (derivative) without carrying target "
             "indices; TLC re-contracts the returned blocks with the tensor "
             "blocks on their minimal indices using the documented weights "
             "m_B/|Sym_B| (1/sqrt|Sym_B| for amplitude vectors; weight 1 and "
             "an arbitrary variation dT for derivatives) and compares with "
             "the original value / first-order change; block expressions "
             "carry the block's permutational symmetry")
