"""C05 - ISR properties and transition moments vs explicit matrix elements."""
from sympy import Symbol

from adcgen import (Operators, GroundState, IntermediateStates, Properties)
from adcgen.expr_container import Expr
from adcgen.tensor_names import tensor_names as tn

from .. import adapter, build, oracle
from ..runner import guarded
from functools import partial

# derivations are long single calls: their own time limit
guarded = partial(guarded, call_timeout=900)      # DERIVATION
from .c03 import CLS, isr_models


def run_group(chk, variant, K, requests, sizes, seeds, gs, adc=()):
    """requests: ("P", order, block, n_particles, subtract_gs) or
                 ("T", order, space, n_create, n_annihilate, subtract_gs)"""
    names = oracle.gs_names(4)
    for nm in (tn.left_adc_amplitude, tn.right_adc_amplitude):
        names.setdefault(nm, len(names) + 1)
    for k in range(1, len(requests) + 1):
        names[f"Ref{k}"] = len(names) + 1
    isr = IntermediateStates(gs, variant)
    prop = Properties(isr)
    reqs, todo, ncls = [], [], 1
    for k, rq in enumerate(requests, 1):
        base = {"nid": names[f"Ref{k}"], "what": rq[0], "order": rq[1],
                "roles": [], "dn": names[tn.operator],
                "xn": names[tn.left_adc_amplitude],
                "yn": names[tn.right_adc_amplitude]}
        if rq[0] == "P":
            _, order, block, npart, sub = rq
            bs, ks = block.split(",")
            base.update({"bc": CLS[bs], "kc": CLS[ks], "nc": npart,
                         "na": npart, "sub": bool(sub)})
            ncls = max(ncls, CLS[bs], CLS[ks])
        else:
            _, order, space, nc, na, sub = rq
            base.update({"bc": CLS[space], "kc": CLS[space], "nc": nc,
                         "na": na, "sub": bool(sub)})
            ncls = max(ncls, CLS[space])
        reqs.append(base)
        todo.append((k, rq))
    gm = isr_models(names, variant, K, ncls, reqs, sizes, seeds)
    refs = [(k + 1, gm[k]["noa"], gm[k]["nva"]) for k in range(len(gm))]
    first = len(chk.events)
    for k, rq in todo:
        if rq[0] == "P":
            _, order, block, npart, sub = rq
            what = (f"Properties({variant}).expec_block_contribution({order}, "
                    f"'{block}', n_particles={npart}, subtract_gs={sub})")
            res, exc = guarded(prop.expec_block_contribution, order, block,
                               npart, sub)
        else:
            _, order, space, nc, na, sub = rq
            what = (f"Properties({variant}).trans_moment_space({order}, "
                    f"'{space}', n_create={nc}, n_annihilate={na}, "
                    f"subtract_gs={sub})")
            res, exc = guarded(prop.trans_moment_space, order, space, nc, na,
                               "left", sub)
        chk.count("derivations")
        if exc:
            chk.report_direct(f"prop:{variant}:{rq[0]}:{rq[2]}:exception",
                              f"{what} raised {exc['type']}: {exc['msg']}", exc)
            continue
        expr = Expr(res, real=True).expand()
        try:
            ev, ctx = build.valpres(Symbol(f"Ref{k}"), expr, op="valpres",
                                    key=f"prop:{variant}:{rq[0]}:{rq[2]}:order{rq[1]}",
                                    what=what, tgt_syms=[], names=names,
                                    global_models=refs)
        except adapter.Unsupported as u:
            chk.machinery_errors.append(f"{what}: {u}")
            continue
        ev["text"]["post"] = ev["text"]["post"][:300]
        chk.add_event(ev)
        chk.add_sample({"request": what, "n_terms": len(ev["post"]),
                        "models": ev["_sizes"]})
    # ADC(n) bookkeeping: expectation_value(adc_order) is the sum of the block
    # contributions through the orders of the ADC(n) truncation: block (I, J)
    # of classes (cI, cJ) is expanded through order n - (cI - 1) - (cJ - 1)
    for adc_order, npart, sub in adc:
        need, missing = [], []
        for k, rq in todo:
            if rq[0] == "P" and rq[3] == npart and bool(rq[4]) == bool(sub):
                bs, ks = rq[2].split(",")
                if rq[1] <= adc_order - (CLS[bs] - 1) - (CLS[ks] - 1):
                    need.append((k, rq))
        have = {(rq[2], rq[1]) for _, rq in need}
        spaces = sorted({sp for _, rq in need for sp in rq[2].split(",")},
                        key=lambda sp: CLS[sp])
        for bs in spaces:
            for ks in spaces:
                top = adc_order - (CLS[bs] - 1) - (CLS[ks] - 1)
                missing += [(f"{bs},{ks}", o) for o in range(top + 1)
                            if (f"{bs},{ks}", o) not in have]
        what = (f"Properties({variant}).expectation_value(adc_order="
                f"{adc_order}, n_particles={npart}, subtract_gs={sub})")
        if missing:
            chk.machinery_errors.append(f"{what}: block requests {missing} "
                                        "are not in the request list")
            continue
        res, exc = guarded(prop.expectation_value, adc_order, npart, None, sub)
        chk.count("derivations")
        if exc:
            chk.report_direct(f"prop:{variant}:E:{adc_order}:exception",
                              f"{what} raised {exc['type']}: {exc['msg']}", exc)
            continue
        from sympy import Add
        ref = Add(*[Symbol(f"Ref{k}") for k, _ in need])
        try:
            ev, ctx = build.valpres(ref, Expr(res, real=True).expand(),
                                    op="valpres",
                                    key=f"prop:{variant}:E:adc{adc_order}",
                                    what=what, tgt_syms=[], names=names,
                                    global_models=refs)
        except adapter.Unsupported as u:
            chk.machinery_errors.append(f"{what}: {u}")
            continue
        ev["text"]["post"] = ev["text"]["post"][:300]
        chk.add_event(ev)
    chk.judge_with_header({"op": "globals", "gm": gm}, chk.events[first:])


def run(chk):
    quick = chk.tier == "quick"
    gs = GroundState(Operators("mp"))
    seeds = (1, 2)
    pp = [("T", 0, "ph", 1, 1, True), ("T", 1, "ph", 1, 1, True),
          ("T", 2, "ph", 1, 1, True), ("P", 0, "ph,ph", 1, True),
          ("P", 1, "ph,ph", 1, True), ("P", 2, "ph,ph", 1, True),
          ("P", 2, "ph,ph", 1, False), ("T", 1, "pphh", 1, 1, True),
          ("P", 0, "pphh,pphh", 1, True), ("P", 1, "ph,pphh", 1, True),
          ("P", 1, "pphh,ph", 1, True), ("P", 0, "ph,ph", 2, True),
          ("P", 1, "ph,ph", 2, True), ("P", 0, "ph,pphh", 1, True),
          ("P", 0, "pphh,ph", 1, True), ("P", 0, "ph,ph", 1, False),
          ("P", 1, "ph,ph", 1, False)]
    ip = [("T", 0, "h", 0, 1, True), ("T", 1, "h", 0, 1, True),
          ("T", 2, "h", 0, 1, True), ("P", 0, "h,h", 1, True),
          ("P", 2, "h,h", 1, True), ("P", 0, "phh,phh", 1, True),
          ("P", 1, "h,phh", 1, True), ("T", 1, "phh", 0, 1, True),
          ("P", 1, "h,h", 1, True), ("P", 0, "h,phh", 1, True),
          ("P", 0, "phh,h", 1, True), ("P", 1, "phh,h", 1, True)]
    ea = [("T", 0, "p", 1, 0, True), ("T", 2, "p", 1, 0, True),
          ("P", 0, "p,p", 1, True), ("P", 2, "p,p", 1, True),
          ("P", 0, "pph,pph", 1, True), ("P", 1, "p,pph", 1, True)]
    if not quick:
        pp += [("T", 2, "pphh", 1, 1, True), ("P", 1, "pphh,pphh", 1, True),
               ("P", 2, "ph,pphh", 1, True), ("T", 3, "ph", 1, 1, True),
               ("P", 1, "ph,ph", 2, False), ("P", 2, "ph,ph", 2, True)]
        ip += [("T", 2, "phh", 0, 1, True), ("P", 1, "phh,phh", 1, True),
               ("P", 2, "h,phh", 1, True), ("T", 3, "h", 0, 1, True)]
        ea += [("T", 2, "pph", 1, 0, True), ("P", 1, "pph,pph", 1, True),
               ("P", 2, "p,pph", 1, True)]
    K = 2 if quick else 3
    run_group(chk, "pp", K, pp, [(3, 3), (3, 2), (2, 2)], seeds, gs,
              adc=[(2, 1, True), (1, 1, False)])
    run_group(chk, "ip", K, ip, [(3, 3), (3, 2), (2, 2)], seeds, gs,
              adc=[(2, 1, True)])
    run_group(chk, "ea", K, ea, [(3, 3), (2, 3), (2, 2)], seeds, gs)
    # the pure helper functions behind this property (spec/Helpers.tla)
    from .helpers import run_helpers
    run_helpers(chk, ('bord',))
    return chk.finish(
        rule="each expec_block_contribution / trans_moment_space request is "
             "one event: TLC evaluates the derived scalar (contracted with "
             "arbitrary antisymmetric amplitude vectors X, Y and operator "
             "matrix d of the tensor model) and compares with the order "
             "coefficient of the explicit matrix element between explicitly "
             "constructed intermediate states (spec/Isr.tla) with the "
             "documented 1/sqrt(n_o! n_v!) normalisation; "
             "expectation_value(adc_order) equals the sum of the block "
             "contributions through the orders of the ADC(n) truncation")
