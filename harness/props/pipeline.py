"""System-level workflows validated against spec/Pipeline.tla: an expression
travels through several public transformations; TLC checks every step's
contract with the state produced by the previous step as pre-state."""
import json
import os
import tempfile

from adcgen import (Operators, GroundState, IntermediateStates, SecularMatrix,
                    Intermediates, simplify, reduce_expr,
                    factor_intermediates, generate_code, remove_tensor,
                    transform_to_spatial_orbitals)
from adcgen.expr_container import Expr
from adcgen.indices import get_symbols
from adcgen.tensor_names import tensor_names as tn

from .. import adapter, build, events, oracle, tlc, codeparse
from . import c17

# which property a step's operation belongs to
PROP_OF = {"simplify": "C07", "substitute_contracted": "C08",
           "make_real": "C06", "expand_intermediates": "C11",
           "factor_intermediates": "C11", "reduce_expr": "C11",
           "use_symbolic_denominators": "C13",
           "use_explicit_denominators": "C13", "diagonalize_fock": "C13",
           "spin": "C15", "generate_code": "C17", "expand": "C07"}


class Flow:
    def __init__(self, wid, start, tsyms, names, asm0, alias_cc=False):
        self.wid = wid
        self.names = names
        self.ctx = adapter.Ctx(names=names, alias_cc=alias_cc)
        self.tsyms = list(tsyms)
        self.start = adapter.project_expr(start, self.ctx)
        self.tgt = [self.ctx.index(s) for s in self.tsyms]
        adapter.fill_order(self.start, self.tgt)
        self.asm0 = asm0
        self.steps = []
        self.cur = start
        self.sides = [self.start]

    def step(self, op, post, a=None, tgt_syms=None, extra=None, what=""):
        terms = adapter.project_expr(post, self.ctx) if post is not None else []
        tgt = self.tgt if tgt_syms is None else \
            [self.ctx.index(s) for s in tgt_syms]
        adapter.fill_order(terms, tgt)
        ev = {"op": op, "post": terms, "pre": [], "tgt": sorted(tgt),
              "a": a or {"x": 0}, "what": what or op,
              "text": str(post)[:300] if post is not None else ""}
        if extra:
            ev.update(extra)
        self.steps.append(ev)
        self.sides.append(terms)
        if post is not None:
            self.cur = post
        return ev


def simplify_args(pre, post, ctx):
    def rec(e):
        prov = e.provided_target_idx
        return ["einstein"] if prov is None else \
            ["explicit"] + sorted(ctx.index(s) for s in prov)

    def asm(e):
        return {"real": bool(e.real), "sym": list(e.sym_tensors),
                "antisym": list(e.antisym_tensors)}
    return {"tgt_pre": rec(pre), "tgt_post": rec(post), "asm_pre": asm(pre),
            "asm_post": asm(post), "has_cls": False, "cls": []}


def copy(e):
    return Expr(e.sympy, **e.assumptions)


def code_step(flow, expr, tstr, backend, **kw):
    code = generate_code(copy(expr), tstr, backend=backend, **kw)
    ctx = flow.ctx
    from adcgen.sort_expr import exploit_perm_sym
    subs = exploit_perm_sym(copy(expr), tstr, None, kw.get("bra_ket_sym", 0),
                            kw.get("antisymmetric_result_tensor", True))
    names, symbols, clash = c17.name_table([copy(expr)] + list(subs.values()),
                                           ctx, backend)

    class IdxMap(dict):
        def __missing__(self, n):
            self[n] = ctx.index(get_symbols(n)[0])
            return self[n]
    idxmap = IdxMap()
    for k, ix in enumerate(ctx.idx, 1):
        if not ix["p"]:
            idxmap.setdefault(ix["n"], k)
    prog = codeparse.parse_program(code, names, symbols, idxmap, backend)
    order = get_symbols(tstr.replace(",", ""))
    ev = flow.step("generate_code", None,
                   a={"prog": prog, "target": [ctx.index(s) for s in order],
                      "backend": backend},
                   what=f"generate_code(.., '{tstr}', backend={backend}, {kw})")
    ev["text"] = code[:600]
    return ev


def workflows(quick):
    flows = []
    names = oracle.gs_names(4)
    for n in (tn.left_adc_amplitude, tn.right_adc_amplitude, "Wq"):
        names.setdefault(n, len(names) + 1)
    asm0 = {"real": False, "explicit_denominators": False, "spin": False,
            "fock_diag": False}
    mp = GroundState(Operators("mp"))
    isr = IntermediateStates(mp, "pp")
    m = SecularMatrix(isr)

    # --- W1: the pp-ADC(2) ph/ph block (examples/pp_adc_m_ph_ph_2.py) --------
    tsyms = get_symbols("iajb")
    raw = m.isr_matrix_block(2, "ph,ph", "ia,jb")
    f = Flow(1, Expr(raw, target_idx=tsyms), tsyms, names, dict(asm0))
    x = Expr(raw, real=True, target_idx=tsyms)
    f.step("make_real", copy(x), what="Expr(block, real=True)")
    x = copy(x).substitute_contracted()
    f.step("substitute_contracted", copy(x), what="substitute_contracted()")
    pre = copy(x)
    x = simplify(copy(x))
    f.step("simplify", copy(x), a=simplify_args(pre, x, f.ctx),
           what="simplify(block)")
    x = copy(x).diagonalize_fock()
    f.step("diagonalize_fock", copy(x), what="diagonalize_fock()")
    x = reduce_expr(copy(x))
    xe = build.expand_mul(copy(x))
    f.step("reduce_expr", xe, what="reduce_expr(block)")
    x = factor_intermediates(copy(x), max_order=1)
    xe = build.expand_mul(copy(x))
    f.step("factor_intermediates", xe, what="factor_intermediates(max_order=1)")
    code_step(f, xe, "ia,jb", "einsum", bra_ket_sym=1)
    if not quick:
        code_step(f, xe, "ia,jb", "libtensor", bra_ket_sym=1)
    flows.append(f)

    # --- W2: MP2 density block -> restricted spatial orbitals (examples/mp2_density.py)
    expec = mp.expectation_value(2, 1)
    expec = Expr(expec, real=True, sym_tensors=[tn.operator])
    expec.substitute_contracted()
    expec = simplify(expec)
    dm = remove_tensor(expec, tn.operator)
    for blk, tstr in (("oo", "ij"), ("vv", "ab")) if quick else \
            (("oo", "ij"), ("ov", "ia"), ("vv", "ab")):
        if (blk,) not in dm:
            continue
        ts = get_symbols(tstr)
        start = Expr(dm[(blk,)].sympy, real=True, target_idx=ts)
        f = Flow(10 + len(flows), build.expand_mul(copy(start)), ts, names,
                 dict(asm0, real=True))
        x = reduce_expr(copy(start))
        f.step("reduce_expr", build.expand_mul(copy(x)),
               what=f"reduce_expr(MP2 density {blk})")
        x = build.expand_mul(copy(x)).use_symbolic_denominators()
        f.step("use_symbolic_denominators", copy(x))
        pre = copy(x)
        xs = transform_to_spatial_orbitals(copy(x), tstr, "aa", True, True)
        ts_a = get_symbols(tstr, "aa")
        f.step("spin", copy(xs), tgt_syms=ts_a,
               a={"pretgt": [f.ctx.index(s) for s in ts], "spins": list("aa"),
                  "restricted": True},
               what="transform_to_spatial_orbitals(.., 'aa', restricted=True)")
        f.steps[-1]["tgt"] = [f.ctx.index(s) for s in ts_a]
        f.steps[-1]["spin_step"] = True
        pre = copy(xs)
        x2 = simplify(copy(xs))
        f.step("simplify", copy(x2), tgt_syms=ts_a,
               a=simplify_args(pre, x2, f.ctx), what="simplify(spatial)")
        x3 = copy(x2).use_explicit_denominators()
        f.step("use_explicit_denominators", copy(x3), tgt_syms=ts_a)
        f.spin_from = 3            # steps from the spin step on use spin models
        flows.append(f)

    # --- W3: an intermediate contracted with a free tensor ------------------
    from adcgen.sympy_objects import AntiSymmetricTensor, Amplitude
    i, j, a, b, k, c = get_symbols("ijabkc")
    t22 = Intermediates().available["t2_2"].tensor("jkbc").sympy
    term = AntiSymmetricTensor(tn.eri, (i, a), (j, b), 1) * t22 * \
        Amplitude(tn.right_adc_amplitude, (c,), (k,)) / 2
    ts = [i, a]
    start = Expr(term, real=True, target_idx=ts)
    f = Flow(30, copy(start), ts, names, dict(asm0, real=True))
    x = copy(start).expand_intermediates(True)
    xe = build.expand_mul(copy(x))
    f.step("expand_intermediates", xe, what="expand_intermediates(fully)")
    xs = copy(xe).use_symbolic_denominators()
    f.step("use_symbolic_denominators", copy(xs))
    pre = copy(xs)
    x2 = simplify(copy(xs))
    f.step("simplify", copy(x2), a=simplify_args(pre, x2, f.ctx))
    x3 = copy(x2).use_explicit_denominators()
    f.step("use_explicit_denominators", copy(x3))
    x4 = factor_intermediates(copy(x3), ["t_amplitude"])
    x4e = build.expand_mul(copy(x4))
    f.step("factor_intermediates", x4e, what="factor_intermediates(t_amplitude)")
    code_step(f, x4e, "ia", "einsum")
    flows.append(f)
    return flows, names


def finish_flow(f, names, quick):
    """attach models / hints to the steps; returns the JSON record"""
    ctx = f.ctx
    bkn = [0] * len(names)
    for n, v in ((tn.eri, 1), (tn.fock, 1), (tn.sym_orb_denom, -1),
                 (tn.operator, 1)):
        bkn[names[n] - 1] = v
    for n in range(0, 5):
        bkn[names[f"{tn.gs_density}{n}"] - 1] = 1
    ctx0 = adapter.Ctx(names=names)
    sizes = [(3, 2), (2, 2)] if quick else [(3, 3), (3, 2), (2, 2)]
    gm = []
    for (no, nv) in sizes:
        gm.append(events.model(
            ctx0, noa=no, nva=nv, seed=1, fock="diag", bkn=bkn, oracle="rspt",
            gs=oracle.gs_record(names, 2, 2, with_d=False, dens=True)))
    spin_models = [events.model(ctx0, noa=2, nob=2, nva=2, nvb=2, seed=sd,
                                fock="diag", bkn=bkn, spincons=True,
                                eri="coulomb", restricted=True)
                   for sd in (1, 2)]
    spin_from = getattr(f, "spin_from", None)
    for k, ev in enumerate(f.steps, 1):
        side_prev = f.sides[k - 1]
        side = ev["post"] or side_prev
        if spin_from is not None and k >= spin_from:
            ev["models"] = spin_models
            ev["tabhint"] = build.table_hint([side_prev, side], ctx, ev["tgt"],
                                             (2, 2), True)
        else:
            ev["models"] = [{"ref": r + 1} for r in range(len(gm))
                            if build.cost([side_prev, side], ctx.idx, ev["tgt"],
                                          gm[r]["noa"], gm[r]["nva"]) <=
                            4 * build.BUDGET[build.TIER]] or [{"ref": len(gm)}]
            ev["tabhint"] = build.table_hint([side_prev, side], ctx, ev["tgt"],
                                             (gm[-1]["noa"], gm[-1]["nva"]),
                                             False)
        ev["tabhint"] += [[] for _ in range(len(names) - len(ev["tabhint"]))]
        ev["idx"] = ctx.idx
        ev["names"] = ctx.name_list()
    return {"wid": f.wid, "idx": ctx.idx, "tgt": sorted(f.tgt),
            "names": ctx.name_list(), "start": f.start, "asm0": f.asm0,
            "gm": gm, "steps": f.steps}


def run_pipelines(chk, only_prop=None):
    """Runs the workflows; verdicts of steps whose operation belongs to
    only_prop (or all) are reported on chk."""
    quick = chk.tier == "quick"
    flows, names = workflows(quick)
    recs = [finish_flow(f, names, quick) for f in flows]
    os.makedirs(tlc.WORK, exist_ok=True)
    fd, path = tempfile.mkstemp(prefix="flows_", suffix=".json", dir=tlc.WORK)
    with os.fdopen(fd, "w") as fh:
        json.dump(recs, fh)
    try:
        res = tlc.run_tlc("Pipeline", env={"TRACE_FILE": path}, workers=8,
                          timeout=3000)
    finally:
        os.unlink(path)
    out = res["stdout"]
    steps = tlc.extract_printed(out, "STEP")
    chk.states += res["distinct"]
    chk.transitions += res["states"]
    expected = {(r["wid"], k + 1) for r in recs for k in range(len(r["steps"]))}
    got = {(s[1], s[2]) for s in steps}
    if "Model checking completed" not in out or got != expected:
        k = out.find("Error:")
        chk.machinery_errors.append(
            "Pipeline.tla did not consume every step: " +
            (out[k:k + 2000] if k >= 0 else out[-1500:]))
        return
    byw = {r["wid"]: r for r in recs}
    for s in steps:
        _, wid, l, op, fails = s
        ev = byw[wid]["steps"][l - 1]
        prop = PROP_OF.get(op, "C07")
        if only_prop is not None and prop != only_prop:
            continue
        chk.count("pipeline_steps")
        mach = [f for f in fails if str(f[2]).startswith("MACHINERY")]
        if mach:
            chk.machinery_errors.append(f"workflow {wid} step {l} {op}: {mach}")
        elif fails:
            e2 = dict(ev, key=f"pipeline:{wid}:{op}", _module="Pipeline",
                      what=f"workflow {wid} step {l}: {ev['what']}")
            chk.report(e2, [{"model": f[1], "clause": f[2], "detail": f[3]}
                            for f in fails])
        else:
            chk.traces_ok += 1
    chk.add_sample({"workflow": [e["op"] for e in byw[recs[0]["wid"]]["steps"]]})


def run(chk):
    run_pipelines(chk, None)
    from .chains import run_chains
    quick = chk.tier == "quick"
    run_chains(chk, 16 if quick else 150,
               cfg="PipelineGen.cfg" if quick else "PipelineGen_l6.cfg")
    return chk.finish(
        rule="recorded workflows (pp-ADC(2) ph/ph block: real -> rename -> "
             "simplify -> diagonalize_fock -> reduce -> factor -> code; MP2 "
             "density blocks: reduce -> symbolic denominators -> restricted "
             "spin integration -> simplify -> explicit denominators; an "
             "intermediate contracted with free tensors) validated step by "
             "step against spec/Pipeline.tla (state continuity + contract of "
             "each transformation)")
