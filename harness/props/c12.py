"""C12 - registered intermediate definitions equal the quantities they name."""
import random

from sympy import S

from adcgen import Operators, GroundState, Intermediates
from adcgen.expr_container import Expr
from adcgen.indices import get_symbols
from adcgen.tensor_names import tensor_names as tn

from .. import adapter, build, events, oracle
from ..runner import guarded
from functools import partial

# derivations are long single calls: their own time limit
guarded = partial(guarded, call_timeout=900)      # DERIVATION
from . import c02

# alternative index tuples per default tuple: permuted, shifted letters (the
# contracted indices inside the definitions use low letters), numbered names
COMPOSITES = ("t2eri_1", "t2eri_2", "t2eri_3", "t2eri_4", "t2eri_5",
              "t2eri_6", "t2eri_7", "t2eri_A", "t2eri_B", "t2sq")

# tensor symbols of lower composites inside once expanded pia / pib:
# symbol -> (registered name, kind code, number of upper indices) as in TabKey
SUBNAMES = {"t2eri1": ("t2eri_1", 1, 2), "t2eri2": ("t2eri_2", 4, 4),
            "t2eri6": ("t2eri_6", 1, 2), "t2eri7": ("t2eri_7", 4, 4)}

ALT = {
    "ijab": ["ijab", "jkbc", "klcd", "jiba", "i3j3a3b3", "lkdc", "ijcd"],
    "ia": ["ia", "jb", "kc", "i2a2", "ld"],
    "ijkabc": ["ijkabc", "ijkbcd", "jklcde", "kjicba", "lmndef", "jkiabc"],
    "ijklabcd": ["ijklabcd"],
    "ij": ["ij", "jk", "ji", "kl", "i1j1"],
    "ab": ["ab", "bc", "ba", "cd", "a5b5"],
}


def run(chk):
    quick = chk.tier == "quick"
    K = 3
    names = oracle.gs_names(4)
    sizes = [(3, 3), (2, 3), (2, 2)] if quick else \
        [(3, 3), (3, 2), (2, 3), (2, 2)]
    seeds = (1, 2)
    ctx0 = adapter.Ctx(names=names)
    bkn = [0] * len(names)
    for n, v in ((tn.eri, 1), (tn.fock, 1), (tn.sym_orb_denom, -1)):
        bkn[names[n] - 1] = v
    for n in range(0, 5):
        bkn[names[f"{tn.gs_density}{n}"] - 1] = 1
    gm = []
    for (no, nv) in sizes:
        for sd in seeds:
            gm.append(events.model(
                ctx0, noa=no, nva=nv, seed=sd, fock="diag", bkn=bkn,
                oracle="rspt",
                gs=oracle.gs_record(names, K, 3, with_d=False, dens=True)))
    refs = [(k + 1, gm[k]["noa"], gm[k]["nva"]) for k in range(len(gm))]
    header = {"op": "globals", "gm": gm}
    itmds = Intermediates()
    avail = itmds.available
    r = random.Random(chk.seed)

    # ---- amplitudes and densities against the determinant-space oracle -----
    oracle_backed = [n for n, it in avail.items()
                     if it.itmd_type in ("t_amplitude", "mp_density")]
    for name in oracle_backed:
        it = avail[name]
        default = "".join(it.default_idx)
        if len(default) > 6:         # quadruples: (4,4) space, thorough tier
            continue
        alts = ALT.get(default, [default])
        if quick:
            alts = alts[:2] + r.sample(alts[2:], min(1, len(alts) - 2))
        for idx in alts:
            for full in (False, True):
                if full and it.order >= 3 and (quick or idx not in alts[:2]):
                    # fully expanded third-order definitions come with
                    # multiplied-out denominators (MBs of AST): two index
                    # tuples, thorough tier only
                    continue
                what = f"Intermediates().{name}.expand_itmd('{idx}', fully_expand={full})"
                res, exc = guarded(it.expand_itmd, idx, False, full)
                chk.count("expansions")
                if exc:
                    chk.report_direct(f"itmd:{name}:exception", f"{what} "
                                      f"raised {exc['type']}: {exc['msg']}", exc)
                    continue
                tens = it.tensor(idx)
                # (sympy's expand would multiply (bracket)**-n out)
                expr = build.expand_mul(Expr(res.sympy, real=True))
                try:
                    ev, ctx = build.valpres(
                        Expr(tens.sympy, real=True), expr, op="valpres",
                        key=f"itmd:{name}", what=what,
                        tgt_syms=get_symbols(idx), names=names,
                        global_models=refs)
                except adapter.Unsupported as u:
                    chk.machinery_errors.append(f"{what}: {u}")
                    continue
                ev["text"]["post"] = ev["text"]["post"][:300]
                import json as _json
                if len(_json.dumps(ev["post"])) > 300_000:
                    # huge polynomial denominators: the smallest models only
                    small = min(ev["_sizes"], key=lambda z: (z[0] * z[1], z))
                    ev["models"] = [m for m, z in zip(ev["models"],
                                                      ev["_sizes"])
                                    if z == small]
                    ev["_sizes"] = [small] * len(ev["models"])
                if ev["_mincost"] > 2.5e7:
                    # one event is one TLC state (one worker): fully expanded
                    # third-order definitions are beyond ~10 min even on the
                    # smallest model
                    chk.count("too_expensive_skipped")
                    continue
                chk.add_event(ev)
                chk.add_sample({"request": what, "n_terms": len(ev["post"]),
                                "models": ev["_sizes"]})
    evs = list(chk.events)
    for i in range(0, len(evs), 30):
        chk.judge_with_header(header, evs[i:i + 30])

    # ---- second-order quadruples: need 4 occupied + 4 virtual orbitals -----
    first = len(chk.events)
    gm4 = [events.model(ctx0, noa=4, nva=4, seed=sd, fock="diag", bkn=bkn,
                        oracle="rspt",
                        gs=oracle.gs_record(names, 2, 4, with_d=False))
           for sd in ((1,) if quick else (1, 2))]
    refs4 = [(k + 1, 4, 4) for k in range(len(gm4))]
    it = avail["t4_2"]
    for idx in (["ijklabcd"] if quick else ["ijklabcd", "jiklbacd", "klmncdef"]):
        for full in ((False,) if quick else (False, True)):
            what = f"Intermediates().t4_2.expand_itmd('{idx}', fully_expand={full})"
            res, exc = guarded(it.expand_itmd, idx, False, full)
            chk.count("expansions")
            if exc:
                chk.report_direct("itmd:t4_2:exception", f"{what} raised "
                                  f"{exc['type']}: {exc['msg']}", exc)
                continue
            try:
                ev, ctx = build.valpres(
                    Expr(it.tensor(idx).sympy, real=True),
                    build.expand_mul(Expr(res.sympy, real=True)), op="valpres",
                    key="itmd:t4_2", what=what, tgt_syms=get_symbols(idx),
                    names=names, global_models=refs4)
            except adapter.Unsupported as u:
                chk.machinery_errors.append(f"{what}: {u}")
                continue
            ev["text"]["post"] = ev["text"]["post"][:300]
            # one slice per value of the first occupied and the first virtual
            # target index: 16 events that together cover every assignment
            tsy = get_symbols(idx)
            i_id, a_id = ctx.index(tsy[0]), ctx.index(tsy[4])
            for io in range(1, 5):
                for av in range(5, 9):
                    chk.add_event(dict(ev, fix=[[i_id, io], [a_id, av]],
                                       what=what + f" [slice {tsy[0]}={io}, "
                                                   f"{tsy[4]}={av}]"))
    if len(chk.events) > first:
        chk.judge_with_header({"op": "globals", "gm": gm4}, chk.events[first:])

    # ---- declared permutational / bra-ket symmetry of every intermediate ---
    # Whenever exchanging two index names of one space maps the tensor symbol
    # onto +-itself (that is what the symbol's class and bra_ket_sym declare),
    # the definition must do the same in value.
    first = len(chk.events)
    for name, it in avail.items():
        default = list(it.default_idx)
        if len(default) > 6:
            continue                   # t4_2: covered by the slices above
        base_t = it.tensor(default, return_sympy=True)
        pairs = [(x, y) for x in range(len(default))
                 for y in range(x + 1, len(default))
                 if default[x][0] in "ijklmno" and default[y][0] in "ijklmno"
                 or default[x][0] in "abcdefgh" and default[y][0] in "abcdefgh"]
        if quick:
            pairs = r.sample(pairs, min(2, len(pairs)))
        for (x, y) in pairs:
            swapped = list(default)
            swapped[x], swapped[y] = swapped[y], swapped[x]
            t2 = it.tensor(swapped, return_sympy=True)
            if t2 == base_t:
                sign = 1
            elif t2 == -base_t:
                sign = -1
            else:
                continue               # this exchange is not a declared symmetry
            for full in ((False,) if quick or it.order >= 3 else (False, True)):
                what = (f"declared symmetry of {name}: expand_itmd("
                        f"'{''.join(swapped)}') = {sign:+d} * expand_itmd("
                        f"'{''.join(default)}'), fully_expand={full}")
                a, e1 = guarded(it.expand_itmd, default, False, full)
                b, e2 = guarded(it.expand_itmd, swapped, False, full)
                chk.count("expansions", 2)
                if e1 or e2:
                    e = e1 or e2
                    chk.report_direct(f"itmd:{name}:exception", f"{what} raised"
                                      f" {e['type']}: {e['msg']}", e)
                    continue
                try:
                    ev, ctx = build.valpres(
                        build.expand_mul(Expr(sign * a.sympy, real=True)),
                        build.expand_mul(Expr(b.sympy, real=True)), op="valpres",
                        key=f"itmd:{name}:declared-symmetry", what=what,
                        tgt_syms=get_symbols(default))
                except adapter.Unsupported as u:
                    chk.machinery_errors.append(f"{what}: {u}")
                    continue
                ev["text"]["post"] = ev["text"]["post"][:300]
                chk.add_event(ev)
    chk.judge(events=chk.events[first:], chunk=60)

    # ---- composite integral-amplitude intermediates against the contraction
    # each name stands for (CompositeVal in spec/Contracts.tla) ---------------
    first = len(chk.events)
    CALT = {"ijka": ["ijka", "jikb", "klmc", "lkjb", "i2j2k2a2", "jkla"],
            "ijab": ["ijab", "klcd", "jiba", "klab", "ijcd", "i1j1a1b1"],
            "iabc": ["iabc", "jbcd", "kcba", "jdab", "i4a4b4c4", "kbcd"],
            "iajb": ["iajb", "kcjb", "jbia", "kcld", "i3a3j3b3", "jakb"]}
    for name, it in avail.items():
        if it.itmd_type != "misc" or name not in COMPOSITES:
            continue
        default = "".join(it.default_idx)
        alts = CALT[default]
        if quick:
            alts = alts[:2] + r.sample(alts[2:], 1)
        for idx in alts:
            for full in (False, True):
                what = (f"Intermediates().{name}.expand_itmd('{idx}', "
                        f"fully_expand={full}) vs the contraction it names")
                res, exc = guarded(it.expand_itmd, idx, False, full)
                chk.count("expansions")
                if exc:
                    chk.report_direct(f"itmd:{name}:exception", f"{what} "
                                      f"raised {exc['type']}: {exc['msg']}", exc)
                    continue
                expr = build.expand_mul(Expr(res.sympy, real=True))
                try:
                    ev, ctx = build.valpres(
                        expr, expr, op="composite", key=f"itmd:{name}",
                        what=what, tgt_syms=get_symbols(idx),
                        names=dict(names), global_models=refs)
                except adapter.Unsupported as u:
                    chk.machinery_errors.append(f"{what}: {u}")
                    continue
                ev["pre"] = []
                sub = [{"nid": k + 1, "name": SUBNAMES[n][0],
                        "kc": SUBNAMES[n][1], "nu": SUBNAMES[n][2]}
                       for k, n in enumerate(ev["names"]) if n in SUBNAMES]
                ev["text"]["pre"] = f"{name}{tuple(idx)}"
                ev["text"]["post"] = ev["text"]["post"][:300]
                ev["a"] = {"name": name, "t2": names[f"{tn.gs_amplitude}1"],
                           "V": names[tn.eri],
                           "axes": [ctx.index(x) for x in get_symbols(idx)],
                           "sub": sub}
                chk.add_event(ev)
                chk.count("composite_events")
    if len(chk.events) > first:
        chk.judge_with_header(header, chk.events[first:])

    # ---- RE residuals: definition vs. derived residual (generic model) -----
    first = len(chk.events)
    re = GroundState(Operators("re"))
    for name, (order, space) in {"t2_1_re_residual": (1, "pphh"),
                                 "t1_2_re_residual": (2, "ph"),
                                 "t2_2_re_residual": (2, "pphh")}.items():
        it = avail[name]
        idx = "".join(it.default_idx)
        what = f"{name}.expand_itmd() vs GroundState(re).amplitude_residual({order}, '{space}', '{idx}')"
        der, exc = guarded(re.amplitude_residual, order, space, idx)
        res, exc2 = guarded(it.expand_itmd, idx, False, False)
        chk.count("expansions")
        if exc or exc2:
            e = exc or exc2
            chk.report_direct(f"itmd:{name}:exception", f"{what} raised "
                              f"{e['type']}: {e['msg']}", e)
            continue
        try:
            ev, ctx = build.valpres(Expr(der, real=True).expand(),
                                    Expr(res.sympy, real=True).expand(),
                                    op="valpres", key=f"itmd:{name}",
                                    what=what, tgt_syms=get_symbols(idx))
        except adapter.Unsupported as u:
            chk.machinery_errors.append(f"{what}: {u}")
            continue
        chk.add_event(ev)
    chk.judge(events=chk.events[first:])
    return chk.finish(
        rule="every registered t-amplitude and ground-state density "
             "intermediate, for several index tuples (default, permuted, "
             "shifted letters, numbered), once and fully expanded: TLC "
             "evaluates the definition for every index assignment and compares "
             "with the coefficient of the explicit perturbed wavefunction / "
             "the density block from spec/Rspt.tla (second-order quadruples "
             "on 4 occupied + 4 virtual orbitals); every exchange of two index "
             "names under which the tensor symbol of an intermediate is "
             "declared (anti)symmetric maps the definition onto +-itself in "
             "value; the composite t2eri_* / t2sq intermediates equal, for "
             "every index assignment, the contraction of the first-order "
             "doubles amplitude with the integrals that the specification "
             "states for their name (CompositeVal); RE residual definitions "
             "are compared in value with the derived residuals")
