"""C16 - contraction schemes compute the term and respect their bounds."""
import random

from sympy import Mul, Symbol

from adcgen.expr_container import Expr
from adcgen.generate_code import (optimize_contractions,
                                  unoptimized_contraction, Contraction)
from adcgen.indices import get_symbols

from .. import adapter, build, events, gen
from ..runner import guarded

K_SINGLE = "scheme:single-object-term"
K_HYPER = "scheme:hyper-contraction"


def scaling_rec(sc):
    return {"total": sc.total, "o": sc.occ, "v": sc.virt, "g": sc.general}


def scheme_event(chk, term_expr, scheme, target_syms, limits, key, what):
    """term_expr: Expr of ONE term; scheme: list[Contraction]."""
    term = term_expr.terms[0]
    ctx = adapter.Ctx()
    # the term without numeric / symbolic prefactors
    objs = [o for o in term.objects
            if not o.sympy.is_number and not isinstance(o.base, Symbol)]
    stripped = Mul(*[o.sympy for o in objs])
    pre = adapter.project_expr(stripped, ctx)
    if len(pre) != 1:
        return
    names = {}
    for st_no, c in enumerate(scheme, 1):
        names[c.contraction_name] = st_no
    steps = []
    for c in scheme:
        ops = []
        cnames = c.names if isinstance(c.names, (tuple, list)) else (c.names,)
        cidx = c.indices
        if cidx and not isinstance(cidx[0], (tuple, list)):
            cidx = (cidx,)
        for nm, ix in zip(cnames, cidx):
            if Contraction.is_contraction(nm):
                ops.append({"t": "ctr", "ref": names.get(nm, 0),
                            "ix": [ctx.index(s) for s in ix],
                            "o": {"k": "-"}})
            else:
                match = [o for o in objs if o.longname() == nm and
                         tuple(o.idx) == tuple(ix)]
                if not match:
                    chk.report_direct(key + ":unknown-operand", f"{what}: "
                                      f"operand {nm}{ix} is not an object of "
                                      "the term", {})
                    return
                rec = adapter.project_base(match[0].base, 1, ctx)
                ops.append({"t": "obj", "o": rec, "ref": 0, "ix": []})
        steps.append({"ops": ops,
                      "contracted": [ctx.index(s) for s in c.contracted],
                      "target": [ctx.index(s) for s in c.target],
                      "comp": scaling_rec(c.scaling.computational),
                      "mem": scaling_rec(c.scaling.memory)})
    tgt = [ctx.index(s) for s in target_syms]
    adapter.fill_order(pre, tgt)
    bkn = events.collect_bk(ctx, [(pre, True)])
    spin = build.has_spin(ctx)
    szs = build.pick_sizes([pre], ctx.idx, tgt, build.BUDGET[build.TIER],
                           spin=spin, max_models=1)
    models = [events.model(ctx, noa=szs[0][0], nva=szs[0][1],
                           nob=szs[0][0] if spin else 0,
                           nvb=szs[0][1] if spin else 0, seed=sd, bkn=bkn)
              for sd in (1, 2)]
    ev = {"op": "scheme", "key": key, "what": what, "idx": ctx.idx,
          "tgt": sorted(tgt), "names": ctx.name_list(), "models": models,
          "pre": pre, "post": [],
          "tabhint": build.table_hint([pre], ctx, tgt, szs[0], spin),
          "a": {"steps": steps, "target": tgt,
                "max_itmd_dim": limits.get("max_itmd_dim") or 0,
                "max_n": limits.get("max_n_simultaneous_contracted") or 0},
          "text": {"pre": str(stripped), "post": str(scheme)[:500]}}
    chk.add_event(ev)
    return ev


def is_hyper(term):
    cnt = {}
    for o in term.objects:
        if o.sympy.is_number:
            continue
        for s in set(o.idx):
            cnt[s] = cnt.get(s, 0) + int(o.exponent)
    return any(n >= 3 for n in cnt.values())


def run(chk):
    r = random.Random(chk.seed)
    quick = chk.tier == "quick"
    g = gen.Gen(chk.seed, spaces="ovg", general_prob=0.1, spins=False,
                numbered_prob=0.1)
    gs = gen.Gen(chk.seed + 1, spaces="ov", spins=True)
    n_cases = 200 if quick else 2500
    for case in range(n_cases):
        gg = gs if case % 7 == 6 else g
        gg.new_expression(False)
        targets = gg.targets(n=r.choice([0, 1, 2, 2, 3, 4]))
        hyper = r.random() < 0.15
        try:
            t = gg.term(targets, kinds=r.choice(["AASN", "AAAV", "NNA", "SSAf",
                                                 "AAMM", "VVf"]),
                        n_obj=r.choice([1, 2, 2, 3, 3, 4]),
                        hyper_prob=0.5 if hyper else 0.0,
                        trace_prob=0.15)
        except RuntimeError:
            continue
        # exponents, deltas, symbols, outer products
        if r.random() < 0.15 and t["objs"]:
            o = r.choice(t["objs"])
            if o["kind"] in ("A", "S", "N"):
                o["exp"] = 2
        if r.random() < 0.1:
            t["objs"].append(dict(kind="sym", name="c1", exp=1))
        term = gen.build_term(t)
        if term == 0:
            continue
        tsyms = [gen.sym_of(x) for x in targets]
        r.shuffle(tsyms)
        # squared tensors make their indices contracted (Einstein):
        expr0 = Expr(term)
        if len(expr0) != 1:
            continue
        ein = list(expr0.terms[0].target)
        explicit = r.random() < 0.6 or hyper
        if explicit:
            # requested target order: any permutation of the Einstein targets
            tg = list(ein)
            r.shuffle(tg)
            if hyper:
                tg = [s for s in tsyms if s in set(expr0.terms[0].idx)]
            tstr = "".join(s.name for s in tg)
            tspin = "".join(s.spin for s in tg) if any(s.spin for s in tg) \
                else None
            if tspin is not None and len(tspin) != len(tg):
                continue
            expr = Expr(term, target_idx=tg)
        else:
            tg, tstr, tspin = ein, None, None
            expr = expr0
        limits = {}
        if r.random() < 0.35:
            limits["max_itmd_dim"] = r.choice([2, 3, 4])
        if r.random() < 0.25:
            limits["max_n_simultaneous_contracted"] = r.choice([2, 3])
        n_rel = sum(int(o.exponent) for o in expr.terms[0].objects
                    if not o.sympy.is_number and not isinstance(o.base, Symbol))
        key = "scheme:optimize"
        if n_rel == 1:
            key = K_SINGLE
        elif is_hyper(expr.terms[0]):
            key = K_HYPER
        what = (f"optimize_contractions({term}, target_indices={tstr}, "
                f"target_spin={tspin}, {limits})")
        res, exc = guarded(optimize_contractions, expr.terms[0], tstr, tspin,
                           limits.get("max_itmd_dim"),
                           limits.get("max_n_simultaneous_contracted"))
        chk.count("optimize_calls")
        if exc:
            if exc["type"] == "RuntimeError" and limits:
                chk.count("refused_limits")
            elif exc["type"] == "NotImplementedError":
                chk.count("refused")
            else:
                chk.report_direct(key + ":exception" if key == "scheme:optimize"
                                  else key, f"{what} raised {exc['type']}: "
                                  f"{exc['msg']}", exc)
        else:
            if not isinstance(res, list):
                chk.report_direct(key if key != "scheme:optimize" else
                                  "scheme:not-a-list", f"{what} returned "
                                  f"{type(res).__name__} instead of a list", {})
            elif res:
                ev = scheme_event(chk, expr, res, tg, limits, key, what)
                if ev and case % 25 == 0:
                    chk.add_sample({"call": what[:300],
                                    "steps": len(res)})
        # the single simultaneous contraction
        if case % 3 == 0:
            res, exc = guarded(unoptimized_contraction, expr.terms[0], tstr,
                               tspin)
            chk.count("unoptimized_calls")
            what2 = f"unoptimized_contraction({term}, {tstr}, {tspin})"
            if exc:
                if exc["type"] != "NotImplementedError":
                    chk.report_direct("scheme:unoptimized:exception",
                                      f"{what2} raised {exc['type']}: "
                                      f"{exc['msg']}", exc)
            elif res:
                scheme_event(chk, expr, res, tg, {}, "scheme:unoptimized",
                             what2)
    chk.judge(chunk=500)
    return chk.finish(
        rule="seeded terms of 1-4 tensors (antisymmetric / symmetric / "
             "non-symmetric / amplitudes / ERI, squares, traces, outer "
             "products, symbols, hyper-contractions with explicit targets, "
             "spin labels, general indices), shuffled target orders, limits "
             "max_itmd_dim in {2,3,4}, max_n_simultaneous in {2,3}; the "
             "returned scheme is judged by TLC: objects used once, "
             "intermediates used once, an index summed only when all its "
             "occurrences are inside the group, final target = request, "
             "step-by-step value = Val(term) for all target assignments, "
             "limits, reported scaling, not worse than the hyper-contraction")
