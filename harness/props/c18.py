"""C18 - printing an expression and importing the text restores it."""
import random
import os as _os
REPO = _os.environ.get("VERIF_REPO", "/repo")

from sympy import Symbol, sqrt, Rational

from adcgen import (Operators, GroundState, IntermediateStates, SecularMatrix,
                    Properties, Intermediates)
from adcgen.expr_container import Expr
from adcgen.func import import_from_sympy_latex
from adcgen.indices import Indices, get_symbols
from adcgen.spatial_orbitals import transform_to_spatial_orbitals
from adcgen.tensor_names import tensor_names as tn

from .. import adapter, build, gen
from ..runner import guarded

K_NONREG = "roundtrip:non-registry-index"


def has_nonregistry(expr):
    reg = Indices()
    from adcgen.indices import Index
    return any(not reg.is_cached_index(s) for s in expr.sympy.atoms(Index))


def roundtrip(chk, expr, key, what, spin_model=None):
    """expr: an (expanded) Expr"""
    text = str(expr)
    back, exc = guarded(import_from_sympy_latex, text)
    chk.count("roundtrips")
    if has_nonregistry(expr):
        key = K_NONREG
    if exc:
        chk.report_direct(key if key == K_NONREG else key + ":exception",
                          f"import_from_sympy_latex(str({what})) raised "
                          f"{exc['type']}: {exc['msg']}", {"text": text[:500]})
        return
    asm = expr.assumptions
    post, exc = guarded(Expr, back.sympy, **asm)
    if exc:
        chk.report_direct(key + ":exception", f"re-applying the assumptions "
                          f"after import failed for {what}: {exc['type']} "
                          f"{exc['msg']}", {"text": text[:500]})
        return
    text2 = str(post)
    tsyms = list(expr.provided_target_idx) if expr.provided_target_idx \
        is not None else None
    try:
        ev, ctx = build.valpres(expr, post, op="roundtrip", key=key,
                                what=f"import_from_sympy_latex(str({what}))",
                                tgt_syms=tsyms, spin_model=spin_model,
                                sizes=[(2, 2)] if spin_model else None)
    except adapter.Unsupported as u:
        chk.count("unsupported")
        return
    ev["a"] = {"text_equal": text2 == text}
    ev["text"] = {"pre": text[:500], "post": text2[:500]}
    chk.add_event(ev)
    return ev


def names_roundtrips(chk, quick):
    """The round trip under other tensor_names.json configurations: a fresh
    interpreter on a scratch copy of the package prints and imports; both
    sides are projected there and judged here (names mapped back)."""
    import json
    import os
    import shutil
    import tempfile
    from . import c19
    from .. import events
    cfg = json.load(open(os.path.join(REPO, "adcgen/tensor_names.json")))
    configs = [dict(cfg, eri="Vee", fock="fk", gs_amplitude="amp",
                    orb_energy="eps", sym_orb_denom="Den", operator="op",
                    gs_density="rhoq")]
    if not quick:
        configs.append(dict(cfg, eri="W", fock="h", gs_amplitude="s",
                            orb_energy="x", sym_orb_denom="Z", operator="g",
                            gs_density="r"))
    # (requests whose results contain non-registry indices - the open finding
    # roundtrip:non-registry-index - are left to the default configuration)
    reqs = ["energy2", "m1phph", "t2_2"] if quick else \
        ["energy2", "energy3", "t2_2", "m1phph", "m2phph", "ovl2",
         "p0_2_exp", "p0_2_vv_exp", "expect2"]
    for newcfg in configs:
        scratch = tempfile.mkdtemp(prefix="adcgen_names_")
        try:
            shutil.copytree(os.path.join(REPO, "adcgen"), os.path.join(scratch, "adcgen"))
            json.dump(newcfg, open(os.path.join(scratch, "adcgen",
                                                "tensor_names.json"), "w"))
            rename = {newcfg[k]: cfg[k] for k in cfg if newcfg[k] != cfg[k]}
            out = c19.run_worker(["rt:" + q for q in reqs], 0,
                                 pkg_root=scratch)
            chk.count("processes")
            for rec in out:
                what = (f"print/import round trip of {rec['req'][3:]} with "
                        f"tensor_names.json {newcfg}")
                chk.count("roundtrips")
                if rec["kind"] == "exception":
                    chk.report_direct("roundtrip:names:exception",
                                      f"{what} raised {rec['exc']}", rec)
                    continue
                side = lambda terms: {"terms": terms, "idx": rec["idx"],  # noqa
                                      "names": rec["names"], "tgt": rec["tgt"]}
                a, b, idx, names, tgt = c19.merge(side(rec["pre"]),
                                                  side(rec["post"]), rename)
                ctx = adapter.Ctx(names=names)
                ctx.idx = idx
                adapter.fill_order(a, tgt)
                adapter.fill_order(b, tgt)
                bkn = events.collect_bk(ctx, [(a, True), (b, False)],
                                        (tn.eri, tn.fock))
                szs = build.pick_sizes([a, b], idx, tgt,
                                       build.BUDGET[build.TIER], max_models=1)
                models = [events.model(ctx, noa=szs[0][0], nva=szs[0][1],
                                       seed=sd, bkn=bkn) for sd in (1, 2)]
                chk.add_event({
                    "op": "roundtrip", "key": "roundtrip:names", "what": what,
                    "idx": idx, "tgt": sorted(tgt), "names": list(names),
                    "models": models, "pre": a, "post": b,
                    "tabhint": build.table_hint([a, b], ctx, tgt, szs[0],
                                                False),
                    "a": {"text_equal": bool(rec["text_equal"])},
                    "text": {"pre": rec["text"], "post": ""}})
        finally:
            shutil.rmtree(scratch, ignore_errors=True)


def run(chk):
    r = random.Random(chk.seed)
    quick = chk.tier == "quick"
    # ---- expressions the library derives --------------------------------
    mp = GroundState(Operators("mp"))
    re_ = GroundState(Operators("re"))
    isr = IntermediateStates(mp, "pp")
    m = SecularMatrix(isr)
    prop = Properties(isr)
    derived = [
        ("gs.energy(2)", lambda: Expr(mp.energy(2))),
        ("gs.energy(2) real", lambda: Expr(mp.energy(2), real=True)),
        ("gs.psi(1,'ket')", lambda: Expr(mp.psi(1, "ket"))),
        ("gs.psi(2,'bra')", lambda: Expr(mp.psi(2, "bra"))),
        ("H1", lambda: Expr(Operators("mp").h1[0])),
        ("re H0", lambda: Expr(Operators("re").h0[0])),
        ("precursor(1,'ph','ket','ia')",
         lambda: Expr(isr.precursor(1, "ph", "ket", "ia"))),
        ("isr_matrix_block(2,'ph,ph','ia,jb')",
         lambda: Expr(m.isr_matrix_block(2, "ph,ph", "ia,jb"), real=True)),
        ("isr_matrix_block(1,'ph,pphh')",
         lambda: Expr(m.isr_matrix_block(1, "ph,pphh", "ia,jkbc"), real=True)),
        ("trans_moment_space(2,'ph')",
         lambda: Expr(prop.trans_moment_space(2, "ph"), real=True)),
        ("expec_block_contribution(1,'ph,pphh')",
         lambda: Expr(prop.expec_block_contribution(1, "ph,pphh"), real=True)),
        ("re residual(1,'pphh')",
         lambda: Expr(re_.amplitude_residual(1, "pphh", "ijab"))),
        ("amplitude(2,'ph','ia')",
         lambda: Expr(mp.amplitude(2, "ph", "ia"))),
        ("amplitude(2,'ph','ia') renamed",
         lambda: Expr(mp.amplitude(2, "ph", "ia"), target_idx="ia")
         .expand().substitute_contracted()),
    ]
    avail = Intermediates().available
    for name in ["t2_1", "t1_2", "t2_2", "p0_2_oo", "t2eri_A", "t2sq"]:
        derived.append((f"{name} expanded", lambda n=name: Expr(
            avail[n].expand_itmd(fully_expand=True).sympy, real=True,
            target_idx="".join(avail[n].default_idx))))
        derived.append((f"{name} symbolic denominators", lambda n=name:
                        build.expand_mul(Expr(
                            avail[n].expand_itmd(fully_expand=True).sympy,
                            real=True,
                            target_idx="".join(avail[n].default_idx)))
                        .use_symbolic_denominators()))
    for what, fn in derived:
        x, exc = guarded(fn)
        if exc:
            chk.count("derivation_failed")
            continue
        x = x.expand() if "symbolic" not in what else x
        ev = roundtrip(chk, x, "roundtrip:derived", what)
        if ev:
            chk.add_sample({"expression": what, "text": ev["text"]["pre"][:200]})
    # ---- spin integrated forms ---------------------------------------------
    for name, tspin, restricted in [("t2_1", "abab", False), ("t1_2", "aa", False),
                                    ("t1_2", "bb", True), ("t2_1", "aaaa", True)]:
        it = avail[name]
        idx = "".join(it.default_idx)
        x0 = build.expand_mul(Expr(it.expand_itmd(fully_expand=True).sympy,
                                   real=True, target_idx=idx)
                              ).use_symbolic_denominators()
        res, exc = guarded(transform_to_spatial_orbitals, x0, idx, tspin,
                           restricted, True)
        if exc:
            chk.count("derivation_failed")
            continue
        roundtrip(chk, res, "roundtrip:spin",
                  f"{name} spin integrated {tspin} restricted={restricted}",
                  spin_model=True)
    # ---- grammar ---------------------------------------------------------
    g = gen.Gen(chk.seed, spaces="ovg", general_prob=0.15, spins=True,
                numbered_prob=0.3)
    for case in range(120 if quick else 1500):
        real = r.random() < 0.4
        g.new_expression(real)
        targets = g.targets()
        try:
            terms = [g.term(targets, kinds=r.choice(["AAMSNVfD", "VVf", "MMV",
                                                     "ASN", "aN", "VD"]))
                     for _ in range(r.randint(1, 3))]
        except RuntimeError:
            continue
        for t in terms:
            for o in t["objs"]:
                # the printed form can not distinguish symmetric from
                # antisymmetric tensors: the library only produces the
                # Coulomb integral and D as symmetric tensors
                if o["kind"] == "S" and o["name"] != tn.sym_orb_denom:
                    o["kind"], o["name"] = "A", "Wq" + o["name"][-2:]
                    o["bk"] = 0
            if r.random() < 0.2 and t["objs"]:
                o = r.choice(t["objs"])
                if o["kind"] in ("A", "N"):
                    o["exp"] = r.choice([2, 3])
        total = gen.build_sum(terms)
        if r.random() < 0.15:
            total = total * Symbol("cz")     # (a digit would be printed as subscript)
        if total == 0:
            continue
        tsyms = [gen.sym_of(t) for t in targets]
        kw = {"real": real}
        if r.random() < 0.5:
            kw["target_idx"] = tsyms
        bks = {o["name"]: o["bk"] for t in terms for o in t["objs"]
               if o.get("bk")}
        kw["sym_tensors"] = [n for n, b in bks.items() if b == 1]
        kw["antisym_tensors"] = [n for n, b in bks.items() if b == -1]
        x = Expr(total, **kw).expand()
        roundtrip(chk, x, "roundtrip:grammar", f"grammar sum {case}",
                  spin_model=True if build.has_spin(adapter.Ctx()) else None)
    # orbital-energy fractions: sums in which the same bracket occurs with
    # different exponents, several brackets, numerator brackets
    from . import c13
    gf = gen.Gen(chk.seed + 9, spaces="ov")
    for case in range(25 if quick else 200):
        gf.new_expression(True)
        targets = gf.targets(n=r.choice([0, 2]))
        tsyms = [gen.sym_of(t) for t in targets]
        try:
            t1 = c13.fraction_term(gf, r, targets)
        except RuntimeError:
            continue
        if t1 is None or t1 == 0:
            continue
        x1 = build.expand_mul(Expr(t1, real=True, target_idx=tsyms))
        from sympy import Pow, Add as _Add
        brs = [b for b in x1.sympy.atoms(Pow)
               if b.exp.is_negative and isinstance(b.base, _Add)]
        total = x1.sympy
        if brs:
            b0 = r.choice(sorted(brs, key=str))
            # the same term with one more / one fewer power of one bracket
            total = total + r.choice([1, -2]) * x1.sympy * \
                Pow(b0.base, r.choice([-1, 1, -2]))
        x = build.expand_mul(Expr(total, real=True, target_idx=tsyms))
        roundtrip(chk, x, "roundtrip:fractions",
                  f"fraction sum {case}: {str(x)[:120]}")
    # the same bracket with different exponents inside one expression
    from adcgen.sympy_objects import (AntiSymmetricTensor, NonSymmetricTensor,
                                      Amplitude)
    i_, j_, a_, b_ = get_symbols("ijab")
    E_ = lambda s_: NonSymmetricTensor(tn.orb_energy, (s_,))  # noqa
    V_ = AntiSymmetricTensor(tn.eri, (i_, j_), (a_, b_), 1)
    X_ = Amplitude(tn.right_adc_amplitude, (a_, b_), (i_, j_))
    D1, D2 = E_(a_) - E_(i_), E_(b_) - E_(j_)
    D4 = E_(a_) + E_(b_) - E_(i_) - E_(j_)
    for k_, sx in enumerate([
            V_ * X_ / (D1 ** 2 * D2) + V_ * X_ / (D1 * D2),
            V_ * X_ / D4 ** 2 - 2 * V_ * X_ / D4 + V_ * X_ / D4 ** 3,
            V_ / (D4 * D1) + V_ / (D4 ** 2 * D1 ** 2),
            (E_(a_) + E_(b_)) * V_ / D4 ** 2 - (E_(a_) + E_(b_)) ** 2 * V_ / D4,
            V_ * X_ / (D1 * D2 ** 2) - V_ * X_ / (D1 ** 2 * D2)]):
        tsy = [] if sx.has(X_) else [i_, j_, a_, b_]
        roundtrip(chk, build.expand_mul(Expr(sx, real=True, target_idx=tsy)),
                  "roundtrip:fractions", f"mixed bracket exponents {k_}")
    names_roundtrips(chk, quick)
    chk.judge(chunk=200)
    return chk.finish(
        rule="expanded expressions derived by the library (energies, "
             "wavefunctions with operators, Hamiltonians, precursor states "
             "with normal-ordered groups, secular-matrix blocks, properties, "
             "RE residuals, intermediates with explicit and symbolic "
             "denominators, spin-integrated forms with Coulomb integrals) and "
             "seeded grammar sums (spin labels, numbered indices, sqrt "
             "prefactors, powers, symbols): str(expr) is imported, the "
             "assumptions are re-applied; TLC compares values (operator "
             "strings by their determinant VEV), tensor kinds, and the "
             "harness' literal text comparison")
