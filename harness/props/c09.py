"""C09 - Kronecker delta evaluation.  Inputs come from the build phase of
spec/Deltas.tla (exhaustive small scope, TLC also model-checks the
transcribed algorithm on them) and from the seeded grammar."""
import random

from sympy import Mul

from adcgen.func import evaluate_deltas
from adcgen.expr_container import Expr
from adcgen.indices import get_symbols
from adcgen.sympy_objects import KroneckerDelta, NonSymmetricTensor

from .. import adapter, build, gen, tlc
from ..runner import guarded

UNIVERSE = {
    1: [("i", ""), ("j", ""), ("a", ""), ("p", ""), ("q", "")],
    2: [("i", ""), ("k", "a"), ("p", ""), ("r", "a"), ("s", "b"), ("l", "b")],
    3: [("i", ""), ("j", ""), ("k", "a"), ("a", ""), ("p", ""), ("q", ""),
        ("r", "a")],
}


def sym(ix):
    return get_symbols([ix[0]], [ix[1]])[0]


def run_case(chk, uni, deltas, co, tgt, mode, key):
    U = UNIVERSE[uni]
    objs = [KroneckerDelta(sym(U[x - 1]), sym(U[y - 1])) for x, y in deltas]
    if co:
        objs.append(NonSymmetricTensor("n", [sym(U[x - 1]) for x in co]))
    term = Mul(*objs)
    tsyms = [sym(U[x - 1]) for x in tgt]
    if mode == "einstein":
        res, exc = guarded(evaluate_deltas, term)
    else:
        res, exc = guarded(evaluate_deltas, term, tsyms)
    chk.count("evaluate_deltas_calls")
    if exc is not None:
        chk.report_direct(key + ":exception", f"evaluate_deltas raised "
                          f"{exc['type']}: {exc['msg']}",
                          {"input": str(term), "targets": str(tsyms)})
        return
    ev, ctx = build.valpres(term, res, op="evaluate_deltas", key=key,
                            what=f"evaluate_deltas({term}, {mode} {tsyms})",
                            tgt_syms=tsyms, sizes=[(2, 2)], spin_model=True,
                            seeds=(1, 2))
    ev["text"] = {"pre": str(term), "post": str(res), "targets": str(tsyms),
                  "mode": mode}
    chk.add_event(ev)


def grammar_case(chk, g, r, key):
    """A random term of the grammar multiplied by 1..3 deltas between its
    indices / new indices such that the precondition holds."""
    g.new_expression(False)
    targets = g.targets(n=r.choice([0, 1, 2]))
    base = g.term(targets, kinds=r.choice(["AAMSN", "AVf", "NNA", "SSA"]),
                  n_obj=r.randint(1, 3))
    idx = []
    for ix in gen.term_index_list(base):
        if ix not in idx:
            idx.append(ix)
    if not idx:
        return
    deltas = []
    used = {i[0] for i in idx}
    explicit = set(targets) if r.random() < 0.4 else None
    new_targets = list(targets)
    for _ in range(r.randint(1, 3)):
        x = r.choice(idx)
        sp = gen.idx_space(x[0])
        how = r.random()
        if how < 0.5:
            # delta to a new index (becomes a target): same space or general
            sp2 = r.choice([sp, "g"]) if sp != "g" else r.choice("ovg")
            nm = g.fresh_name(sp2, used)
            used.add(nm)
            spin = x[1] if r.random() < 0.7 else r.choice(["", "a", "b"])
            y = (nm, spin)
            new_targets.append(y)
        else:
            cands = [z for z in idx if z != x and
                     (gen.idx_space(z[0]) == sp or "g" in
                      (gen.idx_space(z[0]), sp))]
            if not cands:
                continue
            y = r.choice(cands)
        deltas.append(dict(kind="delta", name="delta", upper=[x, y],
                           lower=[], exp=1))
    if not deltas:
        return
    t = dict(pref=base["pref"], objs=base["objs"] + deltas)
    term = gen.build_term(t)
    if term == 0:
        return
    if explicit is not None:
        tsyms = [gen.sym_of(x) for x in new_targets]
        # precondition: every non target index on a non-delta object
        res, exc = guarded(evaluate_deltas, term, tsyms)
        pre = Expr(term, target_idx=tsyms)
    else:
        tsyms = None
        res, exc = guarded(evaluate_deltas, term)
        pre = Expr(term)
    chk.count("evaluate_deltas_calls")
    if exc is not None:
        chk.report_direct(key + ":exception", f"evaluate_deltas raised "
                          f"{exc['type']}: {exc['msg']}", {"input": str(term)})
        return
    try:
        ev, ctx = build.valpres(pre, res, op="evaluate_deltas", key=key,
                                what=f"evaluate_deltas({term})",
                                tgt_syms=tsyms, sizes=[(2, 2)],
                                spin_model=True)
    except adapter.Unsupported:
        chk.count("unsupported")
        return
    # precondition of the property
    tg = set(ev["tgt"])
    pre_t = ev["pre"][0] if len(ev["pre"]) == 1 else None
    if pre_t is None:
        return
    nondelta = set()
    for o in pre_t["objs"]:
        if o["k"] != "D":
            nondelta.update(adapter.obj_indices(o))
    allidx = set(adapter.term_indices(pre_t))
    if not (allidx - tg) <= nondelta:
        chk.count("precondition_not_met")
        return
    chk.add_event(ev)
    chk.add_sample({"pre": str(term), "post": str(res),
                    "targets": str(tsyms) if tsyms else "einstein"})


def run(chk):
    r = random.Random(chk.seed)
    if chk.tier == "quick":
        configs = [(1, 2, 1), (2, 2, 0)]
        n_grammar = 150
    else:
        configs = [(1, 3, 1), (2, 2, 1), (2, 3, 0), (3, 2, 0), (1, 2, 2)]
        n_grammar = 2000
    total_cases = 0
    for (u, d, x) in configs:
        cfg = f"Deltas_u{u}_d{d}_x{x}.cfg"
        res = chk.run_mc("Deltas", cfg=cfg, timeout=3300,
                         what=f"transcription of evaluate_deltas satisfies the "
                              f"C09 contract: universe {u}, <= {d} deltas, "
                              f"explicit target mode {x}")
        cases = tlc.extract_printed(res["stdout"], "CASE")
        seen = set()
        for c in cases:
            sig = repr(c)
            if sig in seen:
                continue
            seen.add(sig)
            _, deltas, co, tgt, mode = c
            run_case(chk, u, deltas, co, tgt, mode,
                     key=f"evaluate_deltas:spec-case")
        total_cases += len(seen)
        if seen:
            chk.add_sample({"spec_case": cases[len(cases) // 2],
                            "universe": UNIVERSE[u]})
    chk.notes["spec_generated_cases"] = total_cases
    chk.notes["exhaustive"] = True
    g = gen.Gen(chk.seed, spaces="ovg", general_prob=0.3, spins=True)
    for _ in range(n_grammar):
        try:
            grammar_case(chk, g, r, key="evaluate_deltas:grammar")
        except RuntimeError:
            chk.count("generator_gave_up")
    chk.judge(chunk=1500)
    if chk.tier != "quick":
        # generated workflows (spec/PipelineGen.tla -> real API -> Pipeline.tla):
        # the steps that belong to this property's operations
        from .chains import run_chains
        run_chains(chk, 60, cfg="PipelineGen_l6.cfg", only_prop="C09")
    return chk.finish(
        rule="(1) every input of the build phase of spec/Deltas.tla (all sets "
             "of <= N deltas on the index universe x all coefficient index "
             "sets x Einstein/explicit targets satisfying the precondition), "
             "replayed through adcgen.evaluate_deltas; (2) seeded grammar "
             "terms with 1-3 deltas. Each call is one event judged by TLC "
             "(Val on a 2+2 spatial x spin model, information order, targets "
             "kept). The same machine model-checks the transcribed algorithm.")
