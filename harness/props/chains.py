"""Generated workflows: spec/PipelineGen.tla enumerates every sequence of
public transformations its rules allow; sampled sequences are executed on
generated expressions through the real API and the recorded workflow is
validated step by step against spec/Pipeline.tla (state continuity + the
contract of each transformation under a canonical-orbital tensor model)."""
import json
import os
import random
import tempfile

from sympy import Add

from adcgen import simplify, evaluate_deltas
from adcgen.expr_container import Expr
from adcgen.tensor_names import tensor_names as tn

from .. import adapter, build, events, gen, tlc
from ..runner import guarded
from . import c13
from .pipeline import Flow, simplify_args, copy, PROP_OF

PROP_OF_CHAIN = dict(PROP_OF, evaluate_deltas_expr="C09",
                     substitute_with_generic="C08")
REFUSALS = ("NotImplementedError", "Inputerror", "RuntimeError")


def start_expression(g, r):
    """1-3 fraction terms (ERI / Fock / amplitudes / generic tensors /
    Kronecker deltas with orbital-energy fractions) over common targets"""
    for _ in range(50):
        g.new_expression(False)
        targets = g.targets(n=r.choice([0, 1, 2]))
        tsyms = [gen.sym_of(t) for t in targets]
        terms = []
        for _k in range(r.randint(1, 3)):
            try:
                t = c13.fraction_term(
                    g, r, targets,
                    kind_choices=("VV", "VM", "Vf", "VVf", "VMf", "Af", "Mf",
                                  "AV", "MMf", "Nf"),
                    n_obj=r.randint(2, 3))
            except RuntimeError:
                continue
            if t is None or t == 0:
                continue
            if r.random() < 0.4:
                t = with_delta(t, tsyms, r)
            terms.append(r.choice([1, 1, -1, 2]) * t)
        if not terms:
            continue
        e = Add(*terms)
        if e == 0:
            continue
        return e, tsyms
    return None, None


def with_delta(t, tsyms, r):
    """sum_s A(..s..) B(..s..) = sum_{s,n} A(..s..) delta(s,n) B(..n..)"""
    from sympy import Mul
    from adcgen.indices import Index, get_symbols
    from adcgen.sympy_objects import (KroneckerDelta, AntiSymmetricTensor,
                                      NonSymmetricTensor)
    x = Expr(t, target_idx=tsyms)
    if len(x.terms) != 1 or not x.terms[0].contracted:
        return t
    s_ = r.choice(list(x.terms[0].contracted))
    used = {i.name for i in x.terms[0].idx} | {i.name for i in tsyms}
    free = [c for c in build._LETTERS[s_.space] if c not in used]
    if not free:
        return t
    new = get_symbols(free[0], s_.spin or None)[0]
    args = list(Mul.make_args(t))
    cands = [k for k, a in enumerate(args)
             if isinstance(a, (AntiSymmetricTensor, NonSymmetricTensor))
             and s_ in a.atoms(Index)]
    if not cands:
        return t
    k = r.choice(cands)
    args[k] = args[k].subs(s_, new)
    return Mul(*args) * KroneckerDelta(s_, new)


def apply(op, x, tsyms):
    """one public transformation on a copy; returns the new Expr"""
    if op == "expand":
        return copy(x).expand()
    if op == "make_real":
        return copy(x).make_real()
    if op == "substitute_contracted":
        return copy(x).substitute_contracted()
    if op == "substitute_with_generic":
        return copy(x).substitute_with_generic()
    if op == "simplify":
        return simplify(copy(x))
    if op == "evaluate_deltas_expr":
        return Expr(evaluate_deltas(copy(x).expand().sympy, target_idx=tsyms),
                    **x.assumptions)
    if op == "diagonalize_fock":
        return copy(x).diagonalize_fock()
    if op == "use_symbolic_denominators":
        return build.expand_mul(copy(x)).use_symbolic_denominators()
    if op == "use_explicit_denominators":
        return copy(x).use_explicit_denominators()
    raise KeyError(op)


def run_chains(chk, n_chains, cfg="PipelineGen.cfg", only_prop=None):
    r = random.Random(f"{chk.seed}:{chk.pid}:chains")
    res = chk.run_mc("PipelineGen", cfg=cfg, timeout=900,
                     what="workflow rules: simplify only sees symbolic "
                          "denominators, real is stable, no disabled step; "
                          "emits every allowed chain")
    chains = [list(c[1]) for c in tlc.extract_printed(res["stdout"], "CHAIN")]
    if not chains:
        chk.machinery_errors.append("PipelineGen.tla printed no chain")
        return
    chk.notes["spec_generated_chains"] = len(chains)
    sample = r.sample(chains, min(n_chains, len(chains)))
    g = gen.Gen(chk.seed + 5 + sum(map(ord, chk.pid)), spaces="ov",
                numbered_prob=0.05)
    recs = []
    for wid, ops in enumerate(sample, 100):
        start, tsyms = start_expression(g, r)
        if start is None:
            continue
        x = Expr(start, target_idx=tsyms)
        f = Flow(wid, build.expand_mul(copy(x)), tsyms, None,
                 {"real": False, "explicit_denominators": True,
                  "spin": False, "fock_diag": False},
                 # the workflows are judged in a real orbital basis (a special
                 # case of every model): t{n}cc denotes the same tensor as t{n}
                 alias_cc=True)
        f.start_text = str(x)[:300]
        x = build.expand_mul(copy(x))
        for op in ops:
            pre = copy(x)
            post, exc = guarded(apply, op, x, tsyms)
            chk.count("chain_steps")
            if exc:
                if exc.get("timeout") or exc["type"] in REFUSALS:
                    chk.count("chain_refusals")
                else:
                    chk.report_direct(
                        f"chain:{op}:exception",
                        f"workflow {ops}: {op} on {str(x)[:200]} raised "
                        f"{exc['type']}: {exc['msg']}", exc)
                break
            post = Expr(post.sympy, **post.assumptions)
            try:
                a = simplify_args(pre, post, f.ctx) if op == "simplify" \
                    else None
                f.step(op, copy(post), a=a,
                       what=f"{op} (step {len(f.steps) + 1} of {ops})")
            except adapter.Unsupported:
                chk.count("unsupported")
                break
            x = post
        if not f.steps:
            continue
        recs.append(finish(f))
    if not recs:
        return
    os.makedirs(tlc.WORK, exist_ok=True)
    fd, path = tempfile.mkstemp(prefix="chains_", suffix=".json", dir=tlc.WORK)
    with os.fdopen(fd, "w") as fh:
        json.dump(recs, fh)
    try:
        res = tlc.run_tlc("Pipeline", env={"TRACE_FILE": path}, workers=16,
                          timeout=3000)
    finally:
        os.unlink(path)
    out = res["stdout"]
    steps = tlc.extract_printed(out, "STEP")
    chk.states += res["distinct"]
    chk.transitions += res["states"]
    expected = {(rc["wid"], k + 1) for rc in recs
                for k in range(len(rc["steps"]))}
    got = {(s[1], s[2]) for s in steps}
    if "Model checking completed" not in out or got != expected:
        k = out.find("Error:")
        chk.machinery_errors.append(
            "Pipeline.tla did not consume every generated step: " +
            (out[k:k + 2000] if k >= 0 else out[-1500:]))
        return
    byw = {rc["wid"]: rc for rc in recs}
    for s in steps:
        _, wid, l, op, fails = s
        ev = byw[wid]["steps"][l - 1]
        prop = PROP_OF_CHAIN.get(op, "C07")
        if only_prop is not None and prop != only_prop:
            continue
        chk.count("pipeline_steps")
        mach = [f_ for f_ in fails if str(f_[2]).startswith("MACHINERY")]
        if mach:
            chk.machinery_errors.append(f"chain {wid} step {l} {op}: {mach}")
        elif fails:
            e2 = dict(ev, key=f"chain:{op}", _module="Pipeline",
                      what=f"generated workflow {byw[wid]['ops']} on "
                           f"{byw[wid]['start_text']}: step {l} ({op})")
            chk.report(e2, [{"model": f_[1], "clause": f_[2], "detail": f_[3]}
                            for f_ in fails])
        else:
            chk.traces_ok += 1
    chk.add_sample({"generated_workflow": recs[0]["ops"],
                    "start": recs[0]["start_text"]})


def finish(f):
    ctx = f.ctx
    bkn = events.collect_bk(ctx, [(f.start, True)] +
                            [(s, False) for s in f.sides[1:]])
    for n in (tn.eri, tn.fock):
        if n in ctx.names:
            bkn[ctx.names[n] - 1] = 1
    if tn.sym_orb_denom in ctx.names:
        bkn[ctx.names[tn.sym_orb_denom] - 1] = -1
    gm = [events.model(ctx, noa=no, nva=nv, seed=sd, fock="diag", bkn=bkn)
          for (no, nv) in ((3, 2), (2, 2)) for sd in (1, 2)]
    budget = 2 * build.BUDGET[build.TIER]
    for k, ev in enumerate(f.steps, 1):
        prev, side = f.sides[k - 1], f.sides[k]
        keep = [m for m in range(len(gm))
                if build.cost([prev, side], ctx.idx, ev["tgt"], gm[m]["noa"],
                              gm[m]["nva"]) <= budget]
        ev["models"] = [{"ref": m + 1} for m in (keep or [len(gm) - 1])]
        ev["tabhint"] = build.table_hint([prev, side], ctx, ev["tgt"],
                                         (2, 2), False)
        ev["idx"] = ctx.idx
        ev["names"] = ctx.name_list()
    nn = len(ctx.name_list())
    for ev in f.steps:
        ev["tabhint"] += [[] for _ in range(nn - len(ev["tabhint"]))]
    for m in gm:
        m["tabs"] = [[] for _ in range(nn)]
        m["bkn"] = (m["bkn"] + [0] * nn)[:nn]
    return {"wid": f.wid, "idx": ctx.idx, "tgt": sorted(f.tgt),
            "names": ctx.name_list(), "start": f.start, "asm0": f.asm0,
            "gm": gm, "steps": f.steps,
            "ops": [e["op"] for e in f.steps],
            "start_text": getattr(f, "start_text", "")}
