"""Runs a sequence of requests in THIS (fresh) interpreter and prints, per
request, the projected AST and the texts as one JSON line.  Used by C19
with different PYTHONHASHSEED values / tensor-name configurations."""
import json
import sys


def main():
    reqs = json.loads(sys.argv[1])
    from adcgen import (Operators, GroundState, IntermediateStates,
                        SecularMatrix, Intermediates)
    from adcgen.expr_container import Expr
    from adcgen.indices import Indices, get_symbols, Index
    from adcgen.tensor_names import tensor_names as tn
    from harness import adapter

    mp = GroundState(Operators("mp"))
    isr = IntermediateStates(mp, "pp")
    m = SecularMatrix(isr)

    def contracted_names(expr, tsyms):
        out = set()
        for s in expr.atoms(Index):
            if s not in tsyms:
                out.add((s.name, s.space[0], s.spin))
        return sorted(out)

    MENU = {
        "energy2": lambda: (mp.energy(2), ""),
        "energy3": lambda: (mp.energy(3), ""),
        "amp2ph": lambda: (mp.amplitude(2, "ph", "ia"), "ia"),
        "amp2ph_k3c3": lambda: (mp.amplitude(2, "ph", "k3c3"), "k3c3"),
        "amp2pphh": lambda: (mp.amplitude(2, "pphh", "ijab"), "ijab"),
        "amp1pphh_i3": lambda: (mp.amplitude(1, "pphh", "i3j3a3b3"), "i3j3a3b3"),
        "ovl2": lambda: (isr.overlap_precursor(2, "ph,ph", "ia,jb"), "iajb"),
        "m1phph": lambda: (m.isr_matrix_block(1, "ph,ph", "ia,jb"), "iajb"),
        "m2phph": lambda: (m.isr_matrix_block(2, "ph,ph", "ia,jb"), "iajb"),
        "t2_2": lambda: (Intermediates().available["t2_2"].expand_itmd(
            "ijab", return_sympy=True), "ijab"),
        "expect2": lambda: (mp.expectation_value(2, 1), ""),
        "psi1": lambda: (mp.psi(1, "ket"), None),
        "psi2": lambda: (mp.psi(2, "ket"), None),
        "norm2": lambda: (mp.norm_factor(2), None),
    }
    def density_expr(order, blocks="ij"):
        # <d> through the n-th order density tensor: p{n}^i_j d^i_j
        from adcgen.sympy_objects import AntiSymmetricTensor
        u, l = get_symbols(blocks)
        return (AntiSymmetricTensor(f"{tn.gs_density}{order}", (u,), (l,), 1)
                * AntiSymmetricTensor(tn.operator, (u,), (l,), 1))

    from adcgen import Properties
    prop = Properties(isr)
    re_gs = GroundState(Operators("re"))
    MENU.update({
        # the same method with one argument changed (cache keys)
        "m1phph_nosub": lambda: (m.isr_matrix_block(1, "ph,ph", "ia,jb", False),
                                 "iajb"),
        "m1phph_kcld": lambda: (m.isr_matrix_block(1, "ph,ph", "kc,ld"),
                                "kcld"),
        "m0phph_nosub": lambda: (m.isr_matrix_block(0, "ph,ph", "ia,jb", False),
                                 "iajb"),
        "m0phph": lambda: (m.isr_matrix_block(0, "ph,ph", "ia,jb"), "iajb"),
        "ovlisr2": lambda: (isr.overlap_isr(2, "ph,ph", "ia,jb"), "iajb"),
        "tm1ph": lambda: (prop.trans_moment_space(1, "ph"), ""),
        "tm1ph_nosub": lambda: (prop.trans_moment_space(1, "ph",
                                                        subtract_gs=False), ""),
        "ex1phph": lambda: (prop.expec_block_contribution(1, "ph,ph"), ""),
        "ex0phph": lambda: (prop.expec_block_contribution(0, "ph,ph"), ""),
        "ex0phph_nosub": lambda: (prop.expec_block_contribution(
            0, "ph,ph", 1, False), ""),
        "ex0phph_2p": lambda: (prop.expec_block_contribution(0, "ph,ph", 2),
                               ""),
        "t2_2_klcd": lambda: (Intermediates().available["t2_2"].expand_itmd(
            "klcd", return_sympy=True), "klcd"),
        "t2_2_once": lambda: (Intermediates().available["t2_2"].expand_itmd(
            "ijab", return_sympy=True, fully_expand=False), "ijab"),
        "energy2_re": lambda: (re_gs.energy(2), ""),
        "mvp1": lambda: (m.mvp_block_order(1, "ph", "ph,ph", "ia"), "ia"),
        "mvp1_nosub": lambda: (m.mvp_block_order(1, "ph", "ph,ph", "ia",
                                                 False), "ia"),
    })
    def fac(names):
        # an expression containing the pattern of the first-order RE doubles
        # residual next to t-amplitudes: what is factored must depend on the
        # requested types only, not on earlier requests
        from adcgen.func import import_from_sympy_latex
        from adcgen.factor_intermediates import factor_intermediates
        text = (
            r"\frac{\delta_{i j} {V^{kl}_{bc}} {t1^{ac}_{kl}}}{2}"
            r" - \delta_{i j} {V^{kd}_{lb}} {t1^{ac}_{km}} {t1^{cd}_{lm}}"
            r" - \delta_{i j} {V^{kd}_{mc}} {t1^{ac}_{kl}} {t1^{bd}_{lm}}"
            r" - \delta_{i j} {f^{k}_{m}} {t1^{ac}_{kl}} {t1^{bc}_{lm}}"
            r" - \frac{\delta_{i j} {f^{c}_{d}} {t1^{ac}_{kl}} {t1^{bd}_{kl}}}{2}"
            r" - \frac{\delta_{i j} {V^{bc}_{de}} {t1^{ac}_{kl}} {t1^{de}_{kl}}}{4}"
            r" + \frac{\delta_{i j} {f^{b}_{d}} {t1^{ac}_{kl}} {t1^{cd}_{kl}}}{4}"
            r" - \frac{\delta_{i j} {V^{kl}_{mn}} {t1^{ac}_{kl}} {t1^{bc}_{mn}}}{4}")
        x = import_from_sympy_latex(text, convert_default_names=True)
        x.make_real()
        x.set_target_idx("ijab")
        return factor_intermediates(x, types_or_names=names).sympy

    MENU.update({
        "facB": lambda: (fac("t_amplitude"), "ijab"),
        "facA": lambda: (fac(["t_amplitude", "re_residual"]), "ijab"),
        # (with 'mp_density' first or alone the library's own guard raises
        # RuntimeError "Invalid contracted itmd indices" while it prepares
        # the density intermediates - in every history, also a fresh one)
        "facC": lambda: (fac(["t_amplitude", "mp_density"]), "ijab"),
        "facD": lambda: (fac("re_residual"), "ijab"),
    })
    MENU.update({
        "p0_2_exp": lambda: (Expr(density_expr(2), real=True)
                             .expand_intermediates().sympy, ""),
        "p0_2_vv_exp": lambda: (Expr(density_expr(2, "ab"), real=True)
                                .expand_intermediates().sympy, ""),
        "p0_3_ov_exp": lambda: (Expr(density_expr(3, "ia"), real=True)
                                .expand_intermediates().sympy, ""),
    })
    out = []
    for rq in reqs:
        rec = {"req": rq}
        try:
            if rq.startswith("get:"):
                get_symbols(rq[4:])
                rec["kind"] = "registry"
            elif rq.startswith("generic:"):
                n = int(rq.split(":")[1])
                Indices().get_generic_indices(occ=n, virt=n)
                rec["kind"] = "registry"
            elif rq.startswith("rt:"):
                # print / import round trip in THIS configuration (C18)
                from adcgen.func import import_from_sympy_latex
                res, tstr = MENU[rq[3:]]()
                tsyms = get_symbols(tstr)
                x = Expr(res, real=True, target_idx=tsyms).expand()
                text = str(x)
                back = import_from_sympy_latex(text)
                post = Expr(back.sympy, **x.assumptions)
                ctx = adapter.Ctx()
                pre_t = adapter.project_expr(x, ctx)
                post_t = adapter.project_expr(post, ctx)
                rec.update({"kind": "rt", "pre": pre_t, "post": post_t,
                            "idx": ctx.idx, "names": ctx.name_list(),
                            "tgt": [ctx.index(s) for s in tsyms],
                            "text": text[:400], "text_equal": str(post) == text})
            else:
                res, tstr = MENU[rq]()
                if tstr is None:
                    # wavefunction / norm factor: only the index names matter
                    rec["kind"] = "indices"
                    rec["contracted"] = contracted_names(res, set())
                    rec["text"] = str(Expr(res))[:300]
                else:
                    tsyms = get_symbols(tstr)
                    x = Expr(res, real=True, target_idx=tsyms)
                    x = x.expand()
                    ctx = adapter.Ctx()
                    terms = adapter.project_expr(x, ctx)
                    tgt = [ctx.index(s) for s in tsyms]
                    rec.update({
                        "kind": "expr", "terms": terms, "idx": ctx.idx,
                        "names": ctx.name_list(), "tgt": tgt,
                        "text": str(x),
                        "text_sub": str(Expr(x.sympy, **x.assumptions)
                                        .substitute_contracted()),
                        "roles": {"eri": tn.eri, "fock": tn.fock,
                                  "orb_energy": tn.orb_energy,
                                  "gs_amplitude": tn.gs_amplitude,
                                  "sym_orb_denom": tn.sym_orb_denom},
                    })
        except Exception as exc:       # noqa
            rec["kind"] = "exception"
            rec["exc"] = f"{type(exc).__name__}: {exc}"[:300]
        out.append(rec)
    print("C19RESULT " + json.dumps(out))


if __name__ == "__main__":
    main()
