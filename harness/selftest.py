"""./check selftest - demonstrates the binding between recorded traces and the
specification: corrupting one recorded field must make TLC reject the event
(and, for workflows, the following step as well)."""
import copy
import json
import os
import random
import tempfile

from . import build, gen, tlc
from .runner import Check


def corruptions(ev):
    out = []
    e1 = copy.deepcopy(ev)
    if e1["post"]:
        t = e1["post"][0]
        t["num"] = t["num"] * 3 + 1
        out.append(("prefactor of the first result term changed", e1, 0))
    e2 = copy.deepcopy(ev)
    for ti, t in enumerate(e2["post"]):
        done = False
        for o in t["objs"]:
            if o["k"] in ("A", "M", "S") and len(o["u"]) == 2 and \
                    o["u"][0] != o["u"][1] and o["k"] != "S":
                o["u"] = [o["u"][1], o["u"][0]]
                done = True
                break
        if done:
            out.append(("two antisymmetric indices swapped (sign lost)", e2, ti))
            break
    e3 = copy.deepcopy(ev)
    if len(e3["post"]) > 1:
        e3["post"] = e3["post"][1:]
        out.append(("first result term dropped", e3, 0))
    return out


def main(args):
    from .props import c07, pipeline
    from adcgen.expr_container import Expr
    from adcgen.simplify import simplify
    build.TIER = "quick"
    chk = Check("SELFTEST", "quick", args.seed)
    r = random.Random(args.seed)
    g = gen.Gen(args.seed, spaces="ov")
    events, expect, zero_test, parent = [], {}, {}, {}
    n = 0
    while n < 12:
        real, explicit, targets, terms, cls, order = c07.make_case(g, r)
        total = gen.build_sum(terms)
        if total == 0:
            continue
        tsyms = [gen.sym_of(t) for t in targets]
        pre = Expr(total, real=real, target_idx=tsyms)
        post = simplify(Expr(pre.sympy, **pre.assumptions))
        ev, ctx = build.valpres(pre, post, tgt_syms=tsyms)
        if not ev["post"]:
            continue
        ev["tid"] = len(events) + 1
        events.append(ev)
        expect[ev["tid"]] = ("unchanged", True)
        # terms that vanish by symmetry make corruptions invisible: let TLC
        # decide whether the touched term is identically zero
        for what, bad, ti in corruptions(ev):
            zt = copy.deepcopy(ev)
            zt["pre"] = [ev["post"][ti]]
            zt["post"] = []
            zt["tid"] = len(events) + 1
            events.append(zt)
            bad["tid"] = len(events) + 1
            events.append(bad)
            expect[bad["tid"]] = (what, False)
            zero_test[bad["tid"]] = zt["tid"]
        n += 1
    res = tlc.judge_events(events)
    ok = True
    skipped = 0
    for tid, (what, accepted) in expect.items():
        if tid in zero_test.values():
            continue
        fails = [f for (t, m), f in res["verdicts"].items() if t == tid and f]
        if accepted and fails:
            print(f"SELFTEST: unchanged event {tid} was rejected: {fails[0]}")
            ok = False
        if not accepted and not fails:
            zt = zero_test[tid]
            if not any(f for (t, m), f in res["verdicts"].items()
                       if t == zt and f):
                skipped += 1
                continue        # the touched term is identically zero
            print(f"SELFTEST: corrupted event {tid} ({what}) was ACCEPTED")
            ok = False
    n_bad = sum(1 for v in expect.values() if not v[1])
    print(f"selftest TraceJudge: {len(expect) - n_bad} unchanged events "
          f"accepted, {n_bad - skipped} corrupted events rejected ({skipped} "
          f"corruptions touched a term that TLC shows to be identically zero): "
          f"{'ok' if ok else 'FAILED'}")
    # workflows: corrupt one middle step
    flows, names = pipeline.workflows(True)
    recs = [pipeline.finish_flow(f, names, True) for f in flows[:1]]
    bad = copy.deepcopy(recs[0])
    bad["wid"] = 99
    bad["steps"][2]["post"][0]["num"] += 1
    fd, path = tempfile.mkstemp(prefix="flows_", suffix=".json", dir=tlc.WORK)
    with os.fdopen(fd, "w") as fh:
        json.dump([recs[0], bad], fh)
    try:
        out = tlc.run_tlc("Pipeline", env={"TRACE_FILE": path}, workers=4)
    finally:
        os.unlink(path)
    steps = tlc.extract_printed(out["stdout"], "STEP")
    good_fail = [s for s in steps if s[1] == recs[0]["wid"] and s[4]]
    bad_fail = sorted(s[2] for s in steps if s[1] == 99 and s[4])
    ok2 = not good_fail and 3 in bad_fail and 4 in bad_fail
    print(f"selftest Pipeline: unchanged workflow rejected steps "
          f"{[s[2] for s in good_fail]}, corrupted step 3 -> rejected steps "
          f"{bad_fail} (state continuity): {'ok' if ok2 else 'FAILED'}")
    # registry: histories of spec/Registry.tla replayed into the real class;
    # one predicted field of some histories corrupted -> exactly those must be
    # rejected by the replay
    import subprocess
    out = tlc.run_tlc("Registry", cfg="Registry.cfg", workers=8)
    lines = [json.loads(ln)[4:] for ln in out["stdout"].splitlines()
             if ln.startswith('"REG ')][:3000]
    hist = [json.loads(x) for x in lines]
    n_corrupt = 0
    for k, h in enumerate(hist):
        if k % 10:
            continue
        e = h["log"][-1]
        if k % 20 == 0:
            e["cnt"] += 1                   # a wrong counter
        elif e["op"][0] == "g":
            e["ret"][0][1] += 1             # a wrong generic name
        else:
            e["nsym"] += 1                  # a wrong symbol count
        n_corrupt += 1
    fd, path = tempfile.mkstemp(prefix="reg_", suffix=".jsonl", dir=tlc.WORK)
    with os.fdopen(fd, "w") as fh:
        fh.write("\n".join(json.dumps(h) for h in hist) + "\n")
    try:
        pr = subprocess.run(["/venv/bin/python", "-m",
                             "harness.registry_replay", path],
                            capture_output=True, text=True, timeout=600,
                            cwd=tlc.VERIF)
    finally:
        os.unlink(path)
    res = [ln for ln in pr.stdout.splitlines() if ln.startswith("REGRESULT ")]
    r = json.loads(res[0][len("REGRESULT "):]) if res else {"n": 0, "n_bad": -1}
    ok3 = r["n"] == len(hist) and r["n_bad"] == n_corrupt
    print(f"selftest Registry: {r['n']} spec histories replayed into "
          f"adcgen.indices.Indices, {n_corrupt} with one corrupted predicted "
          f"field -> {r['n_bad']} rejected: {'ok' if ok3 else 'FAILED'}")
    return 0 if ok and ok2 and ok3 else 2
