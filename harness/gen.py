"""
Seeded grammar for adcgen expressions.

Works on *recipes* (plain python data) that are turned into sympy objects
through the real constructors.  Recipes make alpha-variants, corruptions and
replays independent of the library's own substitution code.

  obj recipe  = dict(kind, name, upper, lower, bk, exp)      kind in
                "A" AntiSymmetricTensor, "M" Amplitude, "S" SymmetricTensor,
                "N" NonSymmetricTensor, "delta", "sym" (plain symbol),
                "denom" (explicit bracket: upper added, lower subtracted)
  index       = (name, spin)   name like "i", "a3", "p";  spin "", "a", "b"
  term recipe = dict(pref=(num, den, s2), objs=[obj recipe])
"""
import random
from fractions import Fraction

from sympy import Rational, sqrt, Mul, Add, Pow, S, Symbol, sympify

from adcgen.indices import get_symbols, Indices
from adcgen.sympy_objects import (AntiSymmetricTensor, SymmetricTensor,
                                  Amplitude, NonSymmetricTensor,
                                  KroneckerDelta)
from adcgen.expr_container import Expr
from adcgen.tensor_names import tensor_names

BASE = {"o": "ijklmno", "v": "abcdefgh", "g": "pqrstuvw"}

# tensor vocabulary: name -> (kind, [(n_upper, n_lower)], fixed slot spaces)
# fixed spaces: None (free) or (upper spaces, lower spaces) per rank
VOCAB_A = ["W", "Z", "K", "R", "G", "H"]       # generic antisymmetric
VOCAB_S = ["B", "L", "M"]                      # generic symmetric
VOCAB_N = ["n", "m", "u"]                      # non symmetric
VOCAB_Y = ["c1", "c2", "z"]                    # plain symbols
for _n in VOCAB_A + VOCAB_S + VOCAB_N + VOCAB_Y:
    assert isinstance(sympify(_n), Symbol), _n


def idx_space(name):
    for sp, base in BASE.items():
        if name[0] in base:
            return sp
    raise ValueError(name)


def sym_of(ix):
    name, spin = ix
    return get_symbols([name], [spin] if spin else None)[0] if not spin \
        else get_symbols([name], [spin])[0]


def build_obj(o):
    k = o["kind"]
    up = [sym_of(i) for i in o.get("upper", [])]
    lo = [sym_of(i) for i in o.get("lower", [])]
    e = o.get("exp", 1)
    if k == "A":
        b = AntiSymmetricTensor(o["name"], up, lo, o.get("bk", 0))
    elif k == "M":
        b = Amplitude(o["name"], up, lo, o.get("bk", 0))
    elif k == "S":
        b = SymmetricTensor(o["name"], up, lo, o.get("bk", 0))
    elif k == "N":
        b = NonSymmetricTensor(o["name"], up)
    elif k == "delta":
        b = KroneckerDelta(up[0], up[1])
    elif k == "sym":
        b = Symbol(o["name"])
    elif k == "denom":
        en = tensor_names.orb_energy
        b = Add(*[NonSymmetricTensor(en, (s,)) for s in up],
                *[-NonSymmetricTensor(en, (s,)) for s in lo])
        return Pow(b, -abs(e))
    elif k == "numer":
        en = tensor_names.orb_energy
        cs = o["coeffs"]
        b = Add(*[Rational(c[0], c[1]) * NonSymmetricTensor(en, (s,))
                  for c, s in zip(cs, up)])
        return Pow(b, abs(e))
    else:
        raise ValueError(k)
    return Pow(b, e) if e != 1 else b


def build_pref(p):
    num, den, s2 = p
    r = Rational(num, den)
    if s2:
        r = r * sqrt(2) ** s2
    return r


def build_term(t):
    return Mul(build_pref(t["pref"]), *[build_obj(o) for o in t["objs"]])


def build_sum(terms):
    return Add(*[build_term(t) for t in terms])


def term_index_list(t):
    out = []
    for o in t["objs"]:
        n = abs(o.get("exp", 1))
        for _ in range(n):
            out.extend(o.get("upper", []))
            out.extend(o.get("lower", []))
    return out


class Gen:
    def __init__(self, seed, spaces="ov", spins=False, max_rank=2,
                 general_prob=0.0, numbered_prob=0.15):
        self.r = random.Random(seed)
        self.spaces = spaces
        self.spins = spins
        self.max_rank = max_rank
        self.general_prob = general_prob
        self.numbered_prob = numbered_prob

    # -- index names ---------------------------------------------------------
    def fresh_name(self, space, used):
        base = BASE[space]
        cands = [c for c in base if c not in used]
        if self.r.random() < self.numbered_prob or not cands:
            for _ in range(50):
                n = self.r.choice(base) + str(self.r.randint(1, 12))
                if n not in used:
                    return n
        return self.r.choice(cands)

    def pick_space(self):
        if "g" in self.spaces and self.r.random() < self.general_prob:
            return "g"
        return self.r.choice([s for s in self.spaces if s != "g"] or ["g"])

    def pref(self, sqrt_prob=0.1):
        num = self.r.choice([1, 1, 1, -1, -1, 2, -2, 3, 1, 1, -1, 5])
        den = self.r.choice([1, 1, 1, 2, 2, 4, 4, 8, 3, 6, 12, 16])
        s2 = self.r.choice([1, -1]) if self.r.random() < sqrt_prob else 0
        return (num, den, s2)

    # -- objects (shape only: kind, name, slot spaces) -----------------------
    def obj_shape(self, kinds="AAMSNVfD", allow_denom=False):
        r = self.r
        k = r.choice(kinds)
        if k == "V":
            return dict(kind="A", name=tensor_names.eri, nu=2, nl=2,
                        su=[None, None], sl=[None, None], bk=self.bk_eri)
        if k == "f":
            return dict(kind="A", name=tensor_names.fock, nu=1, nl=1,
                        su=[None], sl=[None], bk=self.bk_eri)
        if k == "A":
            name = r.choice(VOCAB_A)
            nu, nl = r.choice([(1, 1), (2, 2), (2, 2), (1, 1), (2, 1), (1, 2),
                               (2, 0), (0, 2)] +
                              ([(3, 3), (3, 1)] if self.max_rank >= 3 else []))
            return dict(kind="A", name=name + f"{nu}{nl}", nu=nu, nl=nl,
                        su=[None] * nu, sl=[None] * nl,
                        bk=self.name_bk(name + f"{nu}{nl}") if nu == nl else 0)
        if k == "M":
            base = r.choice(["t1", "t2", "t1cc", "X", "Y"])
            n = r.choice([1, 2, 2] + ([3] if self.max_rank >= 3 else []))
            return dict(kind="M", name=base, nu=n, nl=n, su=["v"] * n,
                        sl=["o"] * n, bk=0)
        if k == "S":
            name = r.choice(VOCAB_S)
            nu, nl = r.choice([(1, 1), (2, 2), (2, 0), (2, 1)])
            return dict(kind="S", name=name + f"{nu}{nl}", nu=nu, nl=nl,
                        su=[None] * nu, sl=[None] * nl,
                        bk=self.name_bk(name + f"{nu}{nl}") if nu == nl else 0)
        if k == "N":
            name = r.choice(VOCAB_N)
            n = r.choice([1, 2, 3])
            return dict(kind="N", name=name + str(n), nu=n, nl=0,
                        su=[None] * n, sl=[], bk=0)
        if k in ("a", "s"):
            # bra-ket (anti)symmetric tensor on a diagonal block
            name = r.choice(VOCAB_A if k == "a" else VOCAB_S)
            n = r.choice([1, 1, 2])
            sp = r.choice([x for x in self.spaces if x != "g"] or ["g"])
            nm = name + f"{n}{n}d"
            if self._bk is None:
                self._bk = {}
            if nm not in self._bk:
                self._bk[nm] = r.choice([1, -1, -1])
            return dict(kind="A" if k == "a" else "S", name=nm, nu=n, nl=n,
                        su=[sp] * n, sl=[sp] * n, bk=self._bk[nm])
        if k == "D":
            n = r.choice([1, 2, 2])
            return dict(kind="S", name=tensor_names.sym_orb_denom, nu=n, nl=n,
                        su=["v"] * n, sl=["o"] * n, bk=-1)
        raise ValueError(k)

    bk_eri = 0
    _bk = None

    def name_bk(self, name):
        """bra-ket symmetry is a property of the name inside one expression"""
        if self._bk is None:
            self._bk = {}
        if name not in self._bk:
            self._bk[name] = self.r.choice([0, 0, 1, -1])
        return self._bk[name]

    def new_expression(self, real=False):
        self._bk = {}
        self.bk_eri = 1 if real else 0

    # -- terms ---------------------------------------------------------------
    def term(self, targets, n_obj=None, kinds="AAMSNVfD", hyper_prob=0.0,
             trace_prob=0.05, pref=None, shapes=None, repeat_targets=0.0):
        """A term whose free indices are exactly `targets` (list of (name,
        spin)); every other index occurs exactly twice (or three/four times
        with probability hyper_prob, which needs explicit targets)."""
        r = self.r
        for _attempt in range(200):
            shp = shapes if shapes is not None else [
                self.obj_shape(kinds) for _ in range(n_obj or r.randint(1, 4))]
            shp = [dict(s, su=list(s["su"]), sl=list(s["sl"])) for s in shp]
            nslots = sum(s["nu"] + s["nl"] for s in shp)
            if (nslots - len(targets)) % 2 and shapes is None:
                nm = r.choice(VOCAB_N)
                shp.append(dict(kind="N", name=nm + "1", nu=1, nl=0,
                                su=[None], sl=[], bk=0))
            slots = []          # (obj no, "u"/"l", pos)
            for a, s in enumerate(shp):
                slots += [(a, "u", b) for b in range(s["nu"])]
                slots += [(a, "l", b) for b in range(s["nl"])]
            if len(slots) < len(targets):
                continue

            def fixed(sl):
                a, ul, b = sl
                return shp[a]["su" if ul == "u" else "sl"][b]
            assign = {}
            free = list(slots)
            r.shuffle(free)
            ok = True
            for tg in targets:
                sp = idx_space(tg[0])
                c = [s for s in free if fixed(s) in (None, sp)]
                if not c:
                    ok = False
                    break
                s = c[0]
                free.remove(s)
                assign[s] = tg
                # explicit targets may occur more than once in a term
                if repeat_targets and r.random() < repeat_targets:
                    c2 = [x for x in free if fixed(x) in (None, sp)
                          and x[0] != s[0]]
                    if c2:
                        free.remove(c2[0])
                        assign[c2[0]] = tg
            if not ok:
                continue
            used = {t[0] for t in targets}
            # pair the remaining slots
            while free:
                s = free.pop()
                sp_s = fixed(s)
                cands = [x for x in free
                         if (fixed(x) is None or sp_s is None
                             or fixed(x) == sp_s)]
                # avoid the same antisymmetric group of one tensor
                good = [x for x in cands
                        if not (x[0] == s[0] and x[1] == s[1])]
                if r.random() > trace_prob:
                    good2 = [x for x in good if x[0] != s[0]]
                    good = good2 or good
                if not good:
                    ok = False
                    break
                x = r.choice(good)
                free.remove(x)
                sp = sp_s or fixed(x) or self.pick_space()
                name = self.fresh_name(sp, used)
                used.add(name)
                spin = r.choice(["a", "b"]) if self.spins and \
                    r.random() < 0.5 else ""
                ix = (name, spin)
                assign[s] = ix
                assign[x] = ix
                if free and r.random() < hyper_prob:
                    c3 = [y for y in free if fixed(y) in (None, sp)
                          and not (y[0] in (s[0], x[0]))]
                    if c3:
                        y = r.choice(c3)
                        free.remove(y)
                        assign[y] = ix
            if not ok:
                continue
            objs = []
            for a, s in enumerate(shp):
                up = [assign[(a, "u", b)] for b in range(s["nu"])]
                lo = [assign[(a, "l", b)] for b in range(s["nl"])]
                objs.append(dict(kind=s["kind"], name=s["name"], upper=up,
                                 lower=lo, bk=s["bk"], exp=1))
            t = dict(pref=pref or self.pref(), objs=objs)
            if build_term(t) == 0:
                continue
            return t
        raise RuntimeError("could not generate a term")

    def alpha_variant(self, t, targets, scale=None):
        """Rename the non-target indices of t by a random bijection within
        each (space, spin) and shuffle the objects; value is unchanged."""
        r = self.r
        tnames = {x[0] for x in targets}
        contracted = []
        for ix in term_index_list(t):
            if ix[0] not in tnames and ix not in contracted:
                contracted.append(ix)
        used = set(tnames)
        ren = {}
        # choose new names: a random mixture of permuting the old names and
        # taking new ones
        by_space = {}
        for ix in contracted:
            by_space.setdefault((idx_space(ix[0]), ix[1]), []).append(ix)
        for (sp, spin), lst in by_space.items():
            old = [ix[0] for ix in lst]
            pool = list(old)
            for _ in range(len(old)):
                if r.random() < 0.5:
                    pool.append(self.fresh_name(sp, set(pool) | used))
            pool = [p for p in dict.fromkeys(pool) if p not in tnames]
            r.shuffle(pool)
            for ix, new in zip(lst, pool):
                ren[ix] = (new, spin)
        objs = []
        for o in t["objs"]:
            oo = dict(o)
            oo["upper"] = [ren.get(i, i) for i in o.get("upper", [])]
            oo["lower"] = [ren.get(i, i) for i in o.get("lower", [])]
            objs.append(oo)
        r.shuffle(objs)
        return dict(pref=scale or t["pref"], objs=objs), ren

    def targets(self, n=None, spaces=None):
        r = self.r
        n = r.choice([0, 1, 2, 2, 3]) if n is None else n
        used = set()
        out = []
        for _ in range(n):
            sp = r.choice(spaces or [s for s in self.spaces if s != "g"])
            nm = self.fresh_name(sp, used)
            used.add(nm)
            spin = r.choice(["a", "b"]) if self.spins and r.random() < 0.5 \
                else ""
            out.append((nm, spin))
        return out
