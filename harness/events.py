"""Building events (recorded API calls) for the TLC judge."""
from . import adapter
from adcgen.tensor_names import tensor_names


def declared_bk(ctx, sides_pre, assumptions=(), extra=None):
    """bra-ket symmetry per name id as declared by the PRE state: object
    flags of the pre side(s) and the assumptions in force.  Names that only
    occur on the post side take the flag they carry there (new tensors)."""
    return None


def model(ctx, noa=3, nva=3, nob=0, nvb=0, seed=1, fock="gen", bkn=None,
          restricted=False, spincons=False, eri="gen", roles=True, tabs=None,
          unitary=None, umat=None, oracle="none", gs=None, scn=None):
    names = ctx.names
    def nid(n):
        return names.get(n, 0) if roles else 0
    nn = len(names)
    return {"noa": noa, "nob": nob, "nva": nva, "nvb": nvb, "seed": seed,
            "restricted": restricted, "spincons": spincons, "fock": fock,
            "eri": eri,
            "re": nid(tensor_names.orb_energy),
            "rD": nid(tensor_names.sym_orb_denom),
            "rf": nid(tensor_names.fock), "rv": nid(tensor_names.coulomb),
            "rV": nid(tensor_names.eri),
            "rU": names.get(unitary, 0) if unitary else 0,
            "umat": umat if umat is not None else [],
            "oracle": oracle, "defs": [], "scn": list(scn or []),
            "gs": gs if gs is not None else {"K": 0},
            "bkn": list(bkn) if bkn is not None else [0] * nn,
            "tabs": tabs if tabs is not None else [[] for _ in range(nn)]}


def collect_bk(ctx, sides, assume_sym=(), assume_antisym=()):
    """Event level bra-ket symmetry per name: sides is a list of
    (terms, authoritative) - flags on authoritative (pre) sides and the
    assumptions define the symmetry; names only present on other sides take
    the flags found there."""
    nn = len(ctx.names)
    bk = [None] * nn

    def walk(terms, auth):
        for t in terms:
            for o in t["objs"]:
                if o["k"] in ("P", "NO"):
                    walk(o["pt"], auth)
                elif o["k"] in ("A", "M", "S") and len(o["u"]) == len(o["l"]):
                    i = o["nid"] - 1
                    if auth:
                        if bk[i] is None or bk[i][1] is False:
                            bk[i] = (o["bk"], True)
                        elif o["bk"] != 0 and bk[i][0] == 0:
                            bk[i] = (o["bk"], True)
                    elif bk[i] is None:
                        bk[i] = (o["bk"], False)
    for terms, auth in sides:
        if auth:
            walk(terms, True)
    for terms, auth in sides:
        if not auth:
            walk(terms, False)
    out = [b[0] if b is not None else 0 for b in bk]
    for n in assume_sym:
        if n in ctx.names:
            out[ctx.names[n] - 1] = 1
    for n in assume_antisym:
        if n in ctx.names:
            out[ctx.names[n] - 1] = -1
    return out
