"""Run TLC on a trace file and collect the verdict lines it prints."""
import json
import os
import re
import shutil
import subprocess
import tempfile
import time

VERIF = os.path.dirname(os.path.dirname(os.path.abspath(__file__)))
SPEC = os.path.join(VERIF, "spec")
WORK = os.path.join(VERIF, ".work")
JAR = "/opt/veriftools/tla/tla2tools.jar:/opt/veriftools/tla/CommunityModules-deps.jar"


class TLCError(Exception):
    pass


def parse_tla_value(s):
    """Parse the subset of TLA+ value syntax TLC prints (tuples, records,
    strings, ints, booleans, sets) into Python objects."""
    pos = 0
    n = len(s)

    def ws():
        nonlocal pos
        while pos < n and s[pos] in " \n\t\r":
            pos += 1

    def val():
        nonlocal pos
        ws()
        if s.startswith("<<", pos):
            pos += 2
            out = []
            ws()
            if s.startswith(">>", pos):
                pos += 2
                return out
            while True:
                out.append(val())
                ws()
                if s.startswith(">>", pos):
                    pos += 2
                    return out
                assert s[pos] == ",", (s[pos:pos+20])
                pos += 1
        if s[pos] == "[":
            pos += 1
            out = {}
            while True:
                ws()
                mm = re.match(r"[A-Za-z_0-9]+", s[pos:])
                key = mm.group(0)
                pos += len(key)
                ws()
                assert s.startswith("|->", pos), s[pos:pos+20]
                pos += 3
                out[key] = val()
                ws()
                if s[pos] == "]":
                    pos += 1
                    return out
                assert s[pos] == ","
                pos += 1
        if s[pos] == "{":
            pos += 1
            out = []
            ws()
            if s[pos] == "}":
                pos += 1
                return out
            while True:
                out.append(val())
                ws()
                if s[pos] == "}":
                    pos += 1
                    return out
                assert s[pos] == ","
                pos += 1
        if s[pos] == '"':
            j = pos + 1
            buf = []
            while s[j] != '"':
                if s[j] == "\\":
                    j += 1
                buf.append(s[j])
                j += 1
            pos = j + 1
            return "".join(buf)
        mm = re.match(r"-?\d+", s[pos:])
        if mm:
            pos += len(mm.group(0))
            return int(mm.group(0))
        mm = re.match(r"TRUE|FALSE", s[pos:])
        if mm:
            pos += len(mm.group(0))
            return mm.group(0) == "TRUE"
        mm = re.match(r"[A-Za-z_][A-Za-z_0-9]*", s[pos:])
        if mm:
            pos += len(mm.group(0))
            return mm.group(0)
        raise ValueError(f"can not parse TLA value at {s[pos:pos+40]!r}")

    v = val()
    return v


def extract_printed(stdout, tag):
    """All values printed by PrintT(<<tag, ...>>) (bracket matching, so that
    multi-line values and interleaved workers are handled)."""
    out = []
    key = re.compile(r'<<\s*"%s"' % re.escape(tag))
    i = 0
    while True:
        mm = key.search(stdout, i)
        if mm is None:
            break
        i = mm.start()
        depth = 0
        j = i
        instr = False
        while j < len(stdout):
            c = stdout[j]
            if instr:
                if c == "\\":
                    j += 1
                elif c == '"':
                    instr = False
            elif c == '"':
                instr = True
            elif stdout.startswith("<<", j):
                depth += 1
                j += 1
            elif stdout.startswith(">>", j):
                depth -= 1
                j += 1
                if depth == 0:
                    break
            j += 1
        chunk = stdout[i:j + 1]
        try:
            out.append(parse_tla_value(chunk))
        except Exception as exc:      # pragma: no cover
            raise TLCError(f"unparsable TLC output {chunk[:200]!r}: {exc}")
        i = j + 1
    return out


STATS_RE = re.compile(r"(\d+) states generated, (\d+) distinct states found")


def run_tlc(module, cfg=None, env=None, workers=16, timeout=3600,
            extra=(), workdir=None, simulate=None, depth=None):
    """Run TLC on spec/<module>.tla.  Returns dict(stdout, rc, states,
    distinct, wall)."""
    os.makedirs(WORK, exist_ok=True)
    meta = tempfile.mkdtemp(prefix="tlc_", dir=WORK)
    cfg = cfg or (module + ".cfg")
    cmd = ["java", "-XX:+UseParallelGC", "-Xmx6g", "-Xss512m", "-cp", JAR,
           "tlc2.TLC",
           "-workers", str(workers), "-metadir", meta, "-noGenerateSpecTE",
           "-config", cfg]
    cmd += list(extra)
    cmd += [module + ".tla"]
    e = dict(os.environ)
    if env:
        e.update({k: str(v) for k, v in env.items()})
    t0 = time.time()
    try:
        pr = subprocess.run(cmd, cwd=SPEC, env=e, capture_output=True,
                            text=True, timeout=timeout)
    except subprocess.TimeoutExpired as exc:
        shutil.rmtree(meta, ignore_errors=True)
        raise TLCError(f"TLC timed out after {timeout}s on {module}") from exc
    finally:
        pass
    shutil.rmtree(meta, ignore_errors=True)
    out = pr.stdout + pr.stderr
    st = STATS_RE.findall(out)
    states, distinct = (int(st[-1][0]), int(st[-1][1])) if st else (0, 0)
    return {"stdout": out, "rc": pr.returncode, "states": states,
            "distinct": distinct, "wall": time.time() - t0}


def judge_events(events, module="TraceJudge", workers=16, timeout=3600,
                 tag="VERDICT", keep=None):
    """Write events to a trace file, let TLC judge them, return
    {(tid, model_no): [failed clauses]} plus TLC statistics."""
    os.makedirs(WORK, exist_ok=True)
    fd, path = tempfile.mkstemp(prefix="trace_", suffix=".json", dir=WORK)
    with os.fdopen(fd, "w") as fh:
        json.dump(events, fh)
    try:
        res = run_tlc(module, env={"TRACE_FILE": path}, workers=workers,
                      timeout=timeout)
    finally:
        if keep:
            shutil.copy(path, keep)
        os.unlink(path)
    out = res["stdout"]
    completed = "Model checking completed" in out
    verdicts = {}
    for v in extract_printed(out, tag):
        verdicts[(v[1], v[2])] = v[3]
    expected = {(ev["tid"], m + 1) for ev in events
                if ev.get("op") != "globals"
                for m in range(len(ev["models"]))}
    if not completed or set(verdicts) != expected:
        k = out.find("Error:")
        tail = (out[k:k + 2500] + "\n...\n" + out[-800:]) if k >= 0 else out[-3000:]
        raise TLCError(f"TLC did not judge every event (completed={completed},"
                       f" {len(verdicts)}/{len(expected)} verdicts):\n{tail}")
    res["verdicts"] = verdicts
    return res
