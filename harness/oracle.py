"""Names / model records for the determinant-space oracles (Rspt.tla ...)."""
from adcgen.tensor_names import tensor_names as tn


def gs_names(K=4):
    """Shared name numbering for traces judged under the RSPT oracle."""
    names = [tn.eri, tn.fock, tn.orb_energy, tn.operator, tn.sym_orb_denom]
    for n in range(1, K + 1):
        names += [f"{tn.gs_amplitude}{n}", f"{tn.gs_amplitude}{n}cc"]
    names += [f"Egs{n}" for n in range(0, K + 2)]
    names += [f"Xgs{n}" for n in range(0, K + 1)]
    names += [f"{tn.gs_density}{n}" for n in range(0, K + 1)]
    return {n: i + 1 for i, n in enumerate(names)}


def gs_record(names, K, maxcls, dn=1, with_d=True, dens=False, variant="mp"):
    return {"K": K, "maxcls": maxcls, "variant": variant,
            "t": [names[f"{tn.gs_amplitude}{n}"] for n in range(1, K + 1)],
            "tcc": [names[f"{tn.gs_amplitude}{n}cc"] for n in range(1, K + 1)],
            "E": [names[f"Egs{n}"] for n in range(0, K + 2)],
            "X": [names[f"Xgs{n}"] for n in range(0, K + 1)],
            "d": names[tn.operator] if with_d else 0, "dn": dn,
            "p": [names[f"{tn.gs_density}{n}"] for n in range(0, K + 1)]
            if dens else []}
